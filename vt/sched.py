"""Deterministic scheduler for the concurrency harnesses (DESIGN 2.5, as built).

Actors (client calls and executor tasks) run on real threads, but only one of them runs at any time: at every
preemption point the running actor hands control back to the scheduler, which lives on the harness (traced) thread and
decides - from the symbolic schedule variables - which runnable actor continues.  Only concrete data ever crosses to the
actor threads; every symbolic decision is taken on the traced thread, so CrossHair/z3 enumerate the schedules.

Preemption is bounded: a decision that takes the processor away from an actor that could continue costs one unit of the
preemption budget (context switches forced by blocking are free), as in preemption-bounded model checking.
"""
import threading


class Deadlock(Exception):
    pass


class ActorFailed(Exception):
    pass


class _Abort(BaseException):
    """unwinds an actor thread when the harness abandons the run"""


class Actor:
    def __init__(self, sched, name, fn, args):
        self.sched = sched; self.name = name; self.fn = fn; self.args = args
        self.go = threading.Semaphore(0)
        self.thread = None
        self.state = "new"            # new | ready | blocked | done
        self.waiting_for = None
        self.result = None; self.exc = None
        self.at = "start"

    def _main(self):
        self.go.acquire()
        if self.sched.aborted:
            return
        self.sched.current = self
        try:
            self.result = self.fn(*self.args)
        except _Abort:
            return
        except BaseException as e:      # recorded, never lost
            self.exc = e
        self.state = "done"
        self.sched.current = None
        self.sched.back.release()


class Future:
    """future of a task actor; result() blocks through the scheduler"""
    def __init__(self, sched, actor):
        self.sched = sched; self.actor = actor

    def done(self):
        return self.actor.state == "done"

    def result(self, timeout=None):
        me = self.sched.current
        if me is None and self.actor.state != "done":
            raise RuntimeError("result() of an unfinished task outside an actor")
        while self.actor.state != "done":
            me.state = "blocked"; me.waiting_for = self.actor; me.at = "wait " + self.actor.name
            self.sched._yield(me)
        if me is not None:
            me.waiting_for = None
        if self.actor.exc is not None:
            raise self.actor.exc
        return self.actor.result


class Executor:
    """stands in for ThreadPoolExecutor: a submitted task becomes an actor that the scheduler may run at any later point"""
    def __init__(self, sched):
        self.sched = sched; self.n = 0

    def __call__(self, *a, **k):          # FileCache calls ThreadPoolExecutor()
        return self

    def submit(self, fn, *args):
        self.n += 1
        name = "task%d:%s" % (self.n, getattr(fn, "__name__", "fn"))
        a = self.sched.spawn(name, fn, args, kind="task")
        return Future(self.sched, a)

    def shutdown(self, *a, **k):
        pass


class CheckedLock:
    """threading.Lock with the extra check that no actor reaches a preemption point while holding it (a real thread
    contending for it would block there, so such a schedule would not be a legal one)"""
    def __init__(self, sched):
        self._l = threading.Lock(); self.sched = sched; self.holder = None

    def acquire(self, *a, **k):
        if self.sched.lock_points and self.sched.current is not None:
            self.sched.point("lock")      # a thread can lose the processor right before it takes the lock
        if self._l.locked() and self.holder is not self.sched.current:
            raise Deadlock("lock held by a suspended actor")
        r = self._l.acquire(*a, **k)
        self.holder = self.sched.current
        return r

    def release(self):
        self.holder = None
        self._l.release()

    def locked(self):
        return self._l.locked()

    def __enter__(self):
        self.acquire(); return self

    def __exit__(self, *a):
        self.release(); return False


class Scheduler:
    def __init__(self, choose, preemptions=2, max_steps=200):
        self.choose = choose            # choose(n) -> int in [0, n): called on the harness thread only
        self.actors = []
        self.current = None
        self.back = threading.Semaphore(0)
        self.budget = preemptions
        self.max_steps = max_steps
        self.trace = []                 # (actor name, where it was resumed)
        self.locks = []
        self.on_event = None
        self.aborted = False
        self.lock_points = False        # also preempt right before every lock acquisition (between two critical sections)

    def abort(self):
        """release every actor thread (they unwind and exit); call from a finally: in the harness"""
        self.aborted = True
        for a in self.actors:
            if a.state != "done":
                a.go.release()
        for a in self.actors:
            if a.thread is not None:
                a.thread.join(timeout=1)

    def spawn(self, name, fn, args, kind="client"):
        a = Actor(self, name, fn, args)
        a.kind = kind
        a.state = "ready"
        a.thread = threading.Thread(target=a._main, daemon=True)
        a.thread.start()
        self.actors.append(a)
        return a

    def lock(self):
        l = CheckedLock(self); self.locks.append(l); return l

    # ---- called on actor threads
    def point(self, what):
        """preemption point"""
        me = self.current
        if me is None:
            return                      # harness thread (setup code): not scheduled
        for l in self.locks:
            if l.holder is me:
                return                  # inside a critical section: a real thread would not be preempted *observably* here
        me.at = what
        self._yield(me)

    def _yield(self, me):
        self.current = None
        self.back.release()
        me.go.acquire()
        if self.aborted:
            raise _Abort()
        self.current = me
        if me.state == "blocked":
            me.state = "ready"

    # ---- called on the harness thread
    def run(self):
        last = None
        steps = 0
        while True:
            for a in self.actors:
                if a.state == "blocked" and a.waiting_for is not None and a.waiting_for.state == "done":
                    a.state = "ready"
            runnable = [a for a in self.actors if a.state == "ready"]
            if not runnable:
                if all(a.state == "done" for a in self.actors):
                    return
                raise Deadlock("no runnable actor: " + ", ".join("%s:%s" % (a.name, a.state) for a in self.actors))
            steps += 1
            if steps > self.max_steps:
                raise Deadlock("step budget exhausted")
            if last is not None and last in runnable and (self.budget <= 0 or len(runnable) == 1):
                nxt = last                               # no preemption left: keep running the same actor
            elif len(runnable) == 1:
                nxt = runnable[0]
            else:
                # order: the actor that was running first (choice 0 = no preemption)
                order = ([last] if last in runnable else []) + [a for a in runnable if a is not last]
                c = self.choose(len(order))
                nxt = order[c]
                if last in runnable and nxt is not last:
                    self.budget -= 1
            self.trace.append((nxt.name, nxt.at))
            last = nxt
            nxt.go.release()
            self.back.acquire()
            if nxt.state == "done" or nxt.state == "blocked":
                last = None if nxt.state == "done" else last
                if nxt.state == "blocked":
                    last = None

    def join(self):
        for a in self.actors:
            if a.thread is not None:
                a.thread.join(timeout=2)
