"""C17 - a completed key-value set survives a crash; an interrupted one harms no other key.

Real code executed symbolically: KeyValueStorage.set -> FileCache.update_file -> _write_file (fsync path), and on the
recovered image KeyValueStorage.get -> get_file -> _load_file -> deserialize_obj.
The crash point and everything the disk may have lost are symbolic; the operation trace is the one the real code issues.
"""
from vt.world import enter, verdict, cfg, CFG, pick
from vt import modelfs as M
import klongpy.db.file_cache as FC
import klongpy.db.sys_fn_kvs as KVS
from klongpy.core import KLONG_UNDEFINED

PROPERTY = "C17"
FUNCTIONS = ["klongpy.db.sys_fn_kvs.KeyValueStorage.set", "klongpy.db.sys_fn_kvs.KeyValueStorage.get",
             "klongpy.db.file_cache.FileCache.update_file", "klongpy.db.file_cache.FileCache._write_file",
             "klongpy.db.file_cache.FileCache.get_file", "klongpy.db.file_cache.FileCache._load_file",
             "klongpy.db.file_cache.FileCache.update_file_futures_and_memory", "klongpy.db.helpers.serialize_obj",
             "klongpy.db.helpers.deserialize_obj"]
ASSUMPTIONS = [
    "file system = in-memory model with a volatile and a durable layer and an operation log (mkdir, creat, trunc, write, fsync, close)",
    "persistence model F (gates VIOLATION): fsync(file) makes the file's data, size, its directory entry and the directories above it durable (ext4-like)",
    "persistence model P (strict POSIX: a new directory entry is durable only after an fsync of the directory) is reported separately as a known finding",
    "unsynced data survives as an arbitrary prefix, or not at all (old content stays); no torn writes inside a prefix",
    "executor = lazy (a task runs when awaited); tasks not yet run at the crash are lost",
]
OUTSIDE = ["a real process killed at each boundary", "torn sectors / reordering inside one write", "TableStorage"]

VALUES = [1, "a longer string value", [1, "s", {"k": 3}], "second value"]
SCENARIOS = {
    "same-key-twice": [("a", 0), ("a", 1)],
    "two-keys": [("a", 0), ("b", 1)],
    "nested-then-flat": [("d/e/f", 2), ("a", 0)],
    "three-sets": [("a", 0), ("d/b", 1), ("a", 3)],
    "nested-overwrite": [("d/b", 1), ("d/c", 0), ("d/b", 2)],
}


class Chooser:
    """hands the symbolic loss decisions to crash_image, one variable per (kind, path)"""
    def __init__(self, keeps, entries, prefixes):
        self.pool = {"keep": list(keeps), "entry": list(entries), "prefix": list(prefixes)}
        self.made = {}

    def __call__(self, kind, path, n):
        key = (kind, path)
        if key not in self.made:
            if not self.pool[kind]:
                raise RuntimeError("harness: not enough symbolic choice variables for " + kind)
            v = self.pool[kind].pop(0)
            if v > n:
                v = n
            self.made[key] = v
        return self.made[key]


def crash(p: int, k1: int, k2: int, k3: int, e1: int, e2: int, e3: int, e4: int, e5: int, e6: int, n1: int, n2: int, n3: int) -> bool:
    """
    pre: 0 <= p <= 80
    pre: 0 <= k1 <= 1 and 0 <= k2 <= 1 and 0 <= k3 <= 1
    pre: 0 <= e1 <= 1 and 0 <= e2 <= 1 and 0 <= e3 <= 1 and 0 <= e4 <= 1 and 0 <= e5 <= 1 and 0 <= e6 <= 1
    pre: 0 <= n1 <= 80 and 0 <= n2 <= 80 and 0 <= n3 <= 80
    post: _
    """
    enter()
    scen = SCENARIOS[cfg("scenario", "same-key-twice")]
    model_kind = cfg("model", "F")
    pre_existing = cfg("pre_existing", False)      # keys already durable before the run (model P obligations)
    fs = M.ModelFS()
    initial = {}
    if pre_existing:
        from klongpy.db.helpers import serialize_obj
        for (k, vi) in scen:
            path = "/" + k
            initial[path] = serialize_obj("old")
        for path, c in initial.items():
            fs.files[path] = c
            d = M.posixpath.dirname(path)
            while d not in ("", "/"):
                fs.dirs.add(d); d = M.posixpath.dirname(d)
    M.install(FC, fs)
    try:
        st = KVS.KeyValueStorage("/", max_memory=1000)
        spans = []
        for (k, vi) in scen:
            a = len(fs.log)
            st.set(k, VALUES[vi])
            spans.append((k, vi, a, len(fs.log)))
        log = list(fs.log)
        if p > len(log):
            p = len(log)
        ch = Chooser([k1, k2, k3], [e1, e2, e3, e4, e5, e6], [n1, n2, n3])
        ch.initial = initial
        image = M.crash_image(log, p, ch, model=model_kind)
        # expectations
        expect = {}          # key -> value index of the last set completed before the crash ('old' if pre-existing)
        torn = set()         # keys whose set was in flight at the crash
        for (k, vi, a, b) in spans:
            if b <= p:
                expect[k] = vi; torn.discard(k)
            elif a < p:
                torn.add(k)
        fs2 = M.fs_from_image(image)
        M.install(FC, fs2)
        st2 = KVS.KeyValueStorage("/", max_memory=1000)
        keys = []
        for (k, vi, a, b) in spans:
            if k not in keys:
                keys.append(k)
        # read the interrupted key first: whatever it yields (old, new, garbage, an error) must not disturb the others
        for k in keys:
            if k in torn:
                try:
                    st2.get(k)
                except Exception:
                    pass
        for k in keys:
            if k in torn:
                continue
            r = st2.get(k)                      # must not raise
            if k in expect:
                want = VALUES[expect[k]]
                if r != want or type(r) is not type(want):
                    return verdict(False)
            elif pre_existing:
                if r != "old":
                    return verdict(False)
            elif r is not KLONG_UNDEFINED:
                return verdict(False)
        return verdict(True)
    finally:
        M.uninstall(FC)


def bounds(tier):
    return {"scenarios": sorted(SCENARIOS) if tier != "quick" else ["same-key-twice", "two-keys", "nested-then-flat"],
            "crash point": "every position 0..len(trace) of the recorded operation trace (symbolic)",
            "lost data": "per unsynced file: nothing persisted, or any prefix length (symbolic); per unsynced new entry: survives or not (symbolic)",
            "persistence model": "F for all scenarios; P for overwrites of keys whose entries are already durable"}


def obligations(tier):
    q = tier == "quick"
    names = ["same-key-twice", "two-keys", "nested-then-flat"] if q else sorted(SCENARIOS)
    obs = []
    for s in names:
        obs.append({"name": "crash model=F %s" % s, "fn": "crash", "cfg": {"scenario": s, "model": "F"}, "timeout": 200 if q else 900})
        obs.append({"name": "crash model=P pre-existing keys %s" % s, "fn": "crash",
                    "cfg": {"scenario": s, "model": "P", "pre_existing": True}, "timeout": 200 if q else 900})
    return obs


def _probe_no_dir_fsync():
    """under the strict POSIX model the first set of a new key is lost although set() returned"""
    fs = M.ModelFS(); M.install(FC, fs)
    try:
        st = KVS.KeyValueStorage("/", max_memory=1000)
        st.set("a", 1)
        image = M.crash_image(list(fs.log), len(fs.log), lambda kind, path, n: 0, model="P")
        return "/a" not in image
    finally:
        M.uninstall(FC)


FINDING_PROBES = {"C17/no-directory-fsync": _probe_no_dir_fsync}
