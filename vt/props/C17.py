"""C17 - a completed key-value set survives a crash; an interrupted one harms no other key.

Real code executed symbolically: KeyValueStorage.set -> FileCache.update_file -> _write_file (fsync path), and on the
recovered image KeyValueStorage.get -> get_file -> _load_file -> deserialize_obj.
The crash point and everything the disk may have lost are symbolic; the operation trace is the one the real code issues.
"""
from vt.world import enter, verdict, cfg, CFG, pick
from vt import modelfs as M
import klongpy.db.file_cache as FC
import klongpy.db.sys_fn_kvs as KVS
from klongpy.core import KLONG_UNDEFINED

PROPERTY = "C17"
FUNCTIONS = ["klongpy.db.sys_fn_kvs.KeyValueStorage.set", "klongpy.db.sys_fn_kvs.KeyValueStorage.get",
             "klongpy.db.file_cache.FileCache.update_file", "klongpy.db.file_cache.FileCache._write_file",
             "klongpy.db.file_cache.FileCache.get_file", "klongpy.db.file_cache.FileCache._load_file",
             "klongpy.db.file_cache.FileCache.update_file_futures_and_memory", "klongpy.db.helpers.serialize_obj",
             "klongpy.db.helpers.deserialize_obj"]
ASSUMPTIONS = [
    "file system = in-memory model with a volatile and a durable layer and an operation log (mkdir, creat, trunc, write, fsync, close)",
    "persistence model F (gates VIOLATION): fsync(file) makes the file's data, size, its directory entry and the directories above it durable (ext4-like)",
    "persistence model P (strict POSIX: a new directory entry is durable only after an fsync of the directory) is reported separately as a known finding",
    "unsynced data survives as an arbitrary prefix, or not at all (old content stays); no torn writes inside a prefix",
    "executor = lazy (a task runs when awaited); tasks not yet run at the crash are lost",
]
OUTSIDE = ["a real process killed at each boundary", "torn sectors / reordering inside one write", "TableStorage"]

VALUES = [1, "a longer string value", [1, "s", {"k": 3}], "second value"]
SCENARIOS = {
    "same-key-twice": [("a", 0), ("a", 1)],
    "two-keys": [("a", 0), ("b", 1)],
    "nested-then-flat": [("d/e/f", 2), ("a", 0)],
    "three-sets": [("a", 0), ("d/b", 1), ("a", 3)],
    "nested-overwrite": [("d/b", 1), ("d/c", 0), ("d/b", 2)],
}


class Chooser:
    """hands the symbolic loss decisions to crash_image, one variable per (kind, path)"""
    def __init__(self, keeps, entries, prefixes):
        self.pool = {"keep": list(keeps), "entry": list(entries), "prefix": list(prefixes)}
        self.made = {}

    def __call__(self, kind, path, n):
        key = (kind, path)
        if key not in self.made:
            if not self.pool[kind]:
                raise RuntimeError("harness: not enough symbolic choice variables for " + kind)
            v = self.pool[kind].pop(0)
            if v > n:
                v = n
            self.made[key] = v
        return self.made[key]


def crash(p: int, k1: int, k2: int, k3: int, e1: int, e2: int, e3: int, e4: int, e5: int, e6: int, n1: int, n2: int, n3: int) -> bool:
    """
    pre: 0 <= p <= 80
    pre: 0 <= k1 <= 1 and 0 <= k2 <= 1 and 0 <= k3 <= 1
    pre: 0 <= e1 <= 1 and 0 <= e2 <= 1 and 0 <= e3 <= 1 and 0 <= e4 <= 1 and 0 <= e5 <= 1 and 0 <= e6 <= 1
    pre: 0 <= n1 <= 80 and 0 <= n2 <= 80 and 0 <= n3 <= 80
    post: _
    """
    enter()
    scen = SCENARIOS[cfg("scenario", "same-key-twice")]
    model_kind = cfg("model", "F")
    pre_existing = cfg("pre_existing", False)      # keys already durable before the run (model P obligations)
    fs = M.ModelFS()
    initial = {}
    if pre_existing:
        from klongpy.db.helpers import serialize_obj
        for (k, vi) in scen:
            path = "/" + k
            initial[path] = serialize_obj("old")
        for path, c in initial.items():
            fs.files[path] = c
            d = M.posixpath.dirname(path)
            while d not in ("", "/"):
                fs.dirs.add(d); d = M.posixpath.dirname(d)
    M.install(FC, fs)
    try:
        st = KVS.KeyValueStorage("/", max_memory=1000)
        spans = []
        for (k, vi) in scen:
            a = len(fs.log)
            st.set(k, VALUES[vi])
            spans.append((k, vi, a, len(fs.log)))
        log = list(fs.log)
        if p > len(log):
            p = len(log)
        ch = Chooser([k1, k2, k3], [e1, e2, e3, e4, e5, e6], [n1, n2, n3])
        ch.initial = initial
        image = M.crash_image(log, p, ch, model=model_kind)
        # expectations
        expect = {}          # key -> value index of the last set completed before the crash ('old' if pre-existing)
        torn = set()         # keys whose set was in flight at the crash
        for (k, vi, a, b) in spans:
            if b <= p:
                expect[k] = vi; torn.discard(k)
            elif a < p:
                torn.add(k)
        fs2 = M.fs_from_image(image)
        M.install(FC, fs2)
        st2 = KVS.KeyValueStorage("/", max_memory=1000)
        keys = []
        for (k, vi, a, b) in spans:
            if k not in keys:
                keys.append(k)
        # read the interrupted key first: whatever it yields (old, new, garbage, an error) must not disturb the others
        for k in keys:
            if k in torn:
                try:
                    st2.get(k)
                except Exception:
                    pass
        for k in keys:
            if k in torn:
                continue
            r = st2.get(k)                      # must not raise
            if k in expect:
                want = VALUES[expect[k]]
                if r != want or type(r) is not type(want):
                    return verdict(False)
            elif pre_existing:
                if r != "old":
                    return verdict(False)
            elif r is not KLONG_UNDEFINED:
                return verdict(False)
        return verdict(True)
    finally:
        M.uninstall(FC)


class Killed(Exception):
    """the writing process is killed (SIGKILL): nothing it had not yet handed to the kernel happens any more"""


SCENARIOS2 = {
    # (phase 1 sets, phase 2 sets by the restarted process).  Phase 2 repeats the last value of phase 1: an implementation that
    # skips "redundant" writes by looking at the visible file content sees the un-synced bytes of the killed process.
    "reset-same-value": ([("a", 0)], [("a", 0), ("b", 1)]),
    "reset-after-overwrite": ([("a", 1), ("a", 0)], [("a", 0)]),
    "nested-reset": ([("d/b", 2)], [("d/b", 2), ("a", 0)]),
}


def crash2(p1: int, p2: int, k1: int, k2: int, k3: int, n1: int, n2: int, n3: int) -> bool:
    """
    pre: 0 <= p1 <= 40 and 0 <= p2 <= 120
    pre: 0 <= k1 <= 1 and 0 <= k2 <= 1 and 0 <= k3 <= 1
    pre: 0 <= n1 <= 80 and 0 <= n2 <= 80 and 0 <= n3 <= 80
    post: _
    """
    # Two failures in a row: the writing process is KILLED before its p1-th file-system operation (the page cache survives: what
    # it had written stays visible, but is not durable), a restarted store performs more sets on the same files, then the
    # machine loses power when log[:p2] had been issued.  Every set that RETURNED (in either process) must survive.
    enter()
    first, second = SCENARIOS2[cfg("scenario", "reset-same-value")]
    fs = M.ModelFS()
    state = {"n": 0, "dead": False}

    def hook(op, path):
        if state["dead"]:
            raise Killed()
        state["n"] += 1
        if state["n"] > p1:
            state["dead"] = True
            raise Killed()
    M.install(FC, fs)
    try:
        spans = []
        fs.hook = hook
        st = KVS.KeyValueStorage("/", max_memory=1000)
        for (k, vi) in first:
            a = len(fs.log)
            try:
                st.set(k, VALUES[vi])
            except Killed:
                spans.append((k, vi, a, None))           # never returned
                break
            spans.append((k, vi, a, len(fs.log)))
        # restart: a new process, the same (volatile) file system
        state["dead"] = False; fs.hook = None
        M.install(FC, fs)
        st = KVS.KeyValueStorage("/", max_memory=1000)
        for (k, vi) in second:
            a = len(fs.log)
            st.set(k, VALUES[vi])
            spans.append((k, vi, a, len(fs.log)))
        log = list(fs.log)
        if p2 > len(log):
            p2 = len(log)
        ch = Chooser([k1, k2, k3], [1, 1, 1, 1, 1, 1], [n1, n2, n3])
        ch.initial = {}
        image = M.crash_image(log, p2, ch, model="F")
        expect = {}; torn = set()
        for (k, vi, a, b) in spans:                      # chronological
            if b is None:
                torn.add(k); expect.pop(k, None)         # killed inside this set: old, new or partial content, all allowed
            elif b <= p2:
                expect[k] = vi; torn.discard(k)          # returned before the power loss (a set that issued nothing: a == b)
            elif a < p2:
                torn.add(k)                              # in flight at the power loss
            # else: not started yet
        fs2 = M.fs_from_image(image)
        M.install(FC, fs2)
        st2 = KVS.KeyValueStorage("/", max_memory=1000)
        for k in sorted(set(x[0] for x in spans)):
            if k in torn:
                try:
                    st2.get(k)
                except Exception:
                    pass
                continue
            try:
                r = st2.get(k)
            except Exception:
                return verdict(False)                    # a key that is not being written must never fail
            if k in expect:
                want = VALUES[expect[k]]
                if r != want or type(r) is not type(want):
                    return verdict(False)
        return verdict(True)
    finally:
        M.uninstall(FC)


class _Redundant(Exception):
    pass


def set_during_get(c0: int, c1: int, c2: int, c3: int, c4: int, c5: int, c6: int, c7: int) -> bool:
    """
    pre: 0 <= c0 <= 2 and 0 <= c1 <= 2 and 0 <= c2 <= 2 and 0 <= c3 <= 2
    pre: 0 <= c4 <= 2 and 0 <= c5 <= 2 and 0 <= c6 <= 2 and 0 <= c7 <= 2
    post: _
    """
    # "Once a set has returned the value is durable" must also hold when another thread is reading the same key through the same
    # store: the schedule of the reader, the writer and the cache's worker tasks is symbolic (real threads run one at a time by
    # vt.sched, preemption points at every model file-system operation, task start and future wait).  After set() has returned
    # the machine loses power: only synced data survives.
    enter()
    from vt import sched as S
    from klongpy.db.helpers import serialize_obj
    choices = [c0, c1, c2, c3, c4, c5, c6, c7]
    used = [0]

    def choose(n):
        i = used[0]; used[0] += 1
        if i >= len(choices):
            return 0
        c = choices[i]
        if c >= n:
            raise _Redundant()
        return pick(list(range(n)), c)
    sch = S.Scheduler(choose, preemptions=cfg("preemptions", 3))
    fs = M.ModelFS()
    key = cfg("key", "a")
    fs.files["/" + key] = serialize_obj("OLD")
    initial = {"/" + key: fs.files["/" + key]}
    pts = ("open-r", "read", "open-w", "write", "close", "fsync")
    fs.hook = lambda op, path: sch.point(op + " " + path) if op in pts else None
    saved_lock = FC.Lock
    out = {}
    try:
        M.install(FC, fs, executor=S.Executor(sch))
        FC.Lock = sch.lock
        st = KVS.KeyValueStorage("/", max_memory=1000)

        def reader():
            sch.point("call get")
            try:
                out["get"] = st.get(key)
            except Exception as e:
                out["get_exc"] = type(e).__name__

        def writer():
            sch.point("call set")
            st.set(key, "NEW")
            out["set_returned_at"] = len(fs.log)
        sch.spawn("reader", reader, ())
        sch.spawn("writer", writer, ())
        try:
            sch.run()
        except _Redundant:
            return True
        except S.Deadlock:
            return verdict(False)
        for a in sch.actors:
            if a.kind == "client" and a.exc is not None:
                return verdict(False)
        if "set_returned_at" not in out or "get_exc" in out:
            return verdict(False)
        if out.get("get") not in ("OLD", "NEW"):
            return verdict(False)
        # power loss right after set() returned: nothing unsynced survives
        log = list(fs.log)[:out["set_returned_at"]]
        ch = Chooser([1, 1, 1], [1, 1, 1, 1, 1, 1], [0, 0, 0])
        ch.initial = initial
        image = M.crash_image(log, len(log), ch, model="F")
        M.uninstall(FC); FC.Lock = saved_lock
        fs2 = M.fs_from_image(image)
        M.install(FC, fs2)
        try:
            r = KVS.KeyValueStorage("/", max_memory=1000).get(key)
        except Exception:
            return verdict(False)
        return verdict(r == "NEW")
    finally:
        sch.abort()
        FC.Lock = saved_lock
        M.uninstall(FC)


def bounds(tier):
    return {"scenarios": sorted(SCENARIOS) if tier != "quick" else ["same-key-twice", "two-keys", "nested-then-flat"],
            "crash point": "every position 0..len(trace) of the recorded operation trace (symbolic)",
            "lost data": "per unsynced file: nothing persisted, or any prefix length (symbolic); per unsynced new entry: survives or not (symbolic)",
            "concurrent reader": "one get and one set of the same key through one store, symbolic schedule with <= 3 (4) preemptions",
            "two failures": "process kill before any file-system operation of phase 1, restart, repeated sets, power loss at any point of the combined trace",
            "persistence model": "F for all scenarios; P for overwrites of keys whose entries are already durable"}


def obligations(tier):
    q = tier == "quick"
    names = ["same-key-twice", "two-keys", "nested-then-flat"] if q else sorted(SCENARIOS)
    obs = []
    for s in names:
        obs.append({"name": "crash model=F %s" % s, "fn": "crash", "cfg": {"scenario": s, "model": "F"}, "timeout": 200 if q else 900})
        obs.append({"name": "crash model=P pre-existing keys %s" % s, "fn": "crash",
                    "cfg": {"scenario": s, "model": "P", "pre_existing": True}, "timeout": 200 if q else 900})
    obs.append({"name": "distinct keys live in distinct files (a crash inside a set can only hurt the key being written)", "module": "vt.props.C16",
                "fn": "key_mapping", "cfg": {}, "timeout": 120})
    obs.append({"name": "set concurrent with a get of the same key (symbolic schedule), then power loss", "fn": "set_during_get",
                "cfg": {"preemptions": 3 if q else 4}, "timeout": 300 if q else 900})
    for s in (["reset-same-value"] if q else sorted(SCENARIOS2)):
        obs.append({"name": "kill, restart, re-set, power loss: %s" % s, "fn": "crash2", "cfg": {"scenario": s}, "timeout": 300 if q else 900})
    return obs


def _probe_no_dir_fsync():
    """under the strict POSIX model the first set of a new key is lost although set() returned"""
    fs = M.ModelFS(); M.install(FC, fs)
    try:
        st = KVS.KeyValueStorage("/", max_memory=1000)
        st.set("a", 1)
        image = M.crash_image(list(fs.log), len(fs.log), lambda kind, path, n: 0, model="P")
        return "/a" not in image
    finally:
        M.uninstall(FC)


FINDING_PROBES = {"C17/no-directory-fsync": _probe_no_dir_fsync}
