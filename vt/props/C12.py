"""C12 - parsing always terminates and is repeatable.

Real code executed symbolically: the whole lexer (parser.py: skip_space, skip, read_shifted_comment, read_num, read_char,
read_string, read_sym, read_op, read_list, kg_read, kg_read_array, peek_adverb, read_cond, read_expr_array,
read_sys_comment) and the recursive-descent parser in interpreter.py (prog, _expr, _factor, _read_fn_args, _apply_adverbs).
The program text is symbolic: every position is a symbolic index into the token alphabet (vt.symtext).
"""
import sys, os
_REPO = os.environ.get("VT_REPO", "/repo")
from vt import world as _world
from vt.world import enter, verdict, cfg, CFG, pick, cut
from vt.symtext import SymText, ALPHA, SUB, install_re_proxy
install_re_proxy()        # before klongpy is imported: a regex-based lexer must still run on symbolic text
from klongpy import KlongInterpreter
import klongpy.interpreter as I
import klongpy.parser as P
from klongpy.core import KGFn, KGCall, KGOp, KGAdverb, KGCond, KGSym, KGChar, KGLambda
import numpy as np

PROPERTY = "C12"
FUNCTIONS = ["klongpy.parser." + n for n in ("skip_space", "skip", "read_shifted_comment", "read_num", "read_char", "read_string",
                                            "read_sym", "read_op", "read_list", "kg_read", "kg_read_array", "peek_adverb", "read_cond",
                                            "read_expr_array", "read_sys_comment")] + \
    ["klongpy.interpreter.KlongInterpreter." + n for n in ("prog", "_expr", "_factor", "_read_fn_args", "_apply_adverbs")]
ASSUMPTIONS = [
    "program text = SymText: concrete length, every position a symbolic index into a 31-character token alphabet (one representative "
    "per character class the lexer distinguishes); a position becomes a real one-character str when first read",
    "work is measured in calls of kg_read (every loop of the parser performs at least one, or advances the index by one)",
    "real NumPy backend (no symbolic numbers reach it: numerals are parsed from realised digits)",
]
OUTSIDE = ["texts longer than the bound (corpus edits and long strings are out of reach: paths grow ~x25 per character)",
           "evaluation of programs containing '.' (system functions such as .x) in the repeatability obligation"]


class Budget(Exception):
    pass


K = _world.hoist(KlongInterpreter())
CALLS = [0]
LIMIT = [10 ** 9]
_orig_kg_read = P.kg_read


def _counted(*a, **kw):
    CALLS[0] += 1
    if CALLS[0] > LIMIT[0]:
        raise Budget()
    return _orig_kg_read(*a, **kw)


I.kg_read = _counted
P.kg_read = _counted


def _text(ks, n, alpha):
    first = CFG.get("first")
    ks = list(ks[:n])
    if first is not None:
        for j, c in enumerate(first):
            if j < n:
                ks[j] = c            # concrete leading characters: the obligation is split by prefix
    return SymText(ks, alpha)


def _alpha():
    return SUB if CFG.get("alpha") == "sub" else ALPHA


def terminates(k0: int, k1: int, k2: int, k3: int) -> bool:
    """
    pre: 0 <= k0 < len(_alpha()) and 0 <= k1 < len(_alpha()) and 0 <= k2 < len(_alpha()) and 0 <= k3 < len(_alpha())
    post: _
    """
    # every text of exactly CFG['n'] characters: prog() returns or raises within 40*(n+1)^2 kg_read calls
    enter()
    n = CFG["n"]
    t = _text([k0, k1, k2, k3], n, _alpha())
    CALLS[0] = 0; LIMIT[0] = 40 * (n + 1) * (n + 1)
    K._module = None
    old = sys.getrecursionlimit()
    try:
        i, p = K.prog(t)
        ok = 0 <= i <= n + 1
    except Budget:
        return verdict(False)
    except RecursionError:
        return verdict(False)
    except Exception:
        ok = True                     # a syntax error is a legitimate outcome
    finally:
        LIMIT[0] = 10 ** 9
    return verdict(ok)


def shape(x, depth=0):
    """structural form of a parsed program, including the arity fields"""
    if depth > 40:
        return "deep"
    if isinstance(x, KGCond):
        return ("cond", [shape(y, depth + 1) for y in x])
    if isinstance(x, KGFn):
        return ("call" if isinstance(x, KGCall) else "fn", shape(x.a, depth + 1), shape(x.args, depth + 1), x.arity)
    if isinstance(x, KGOp):
        return ("op", x.a, x.arity)
    if isinstance(x, KGAdverb):
        return ("adv", shape(x.a, depth + 1), x.arity)
    if isinstance(x, KGLambda):
        return ("lambda",)
    if isinstance(x, KGSym):
        return ("sym", str(x))
    if isinstance(x, KGChar):
        return ("chr", str(x))
    if isinstance(x, str):
        return ("str", x)
    if isinstance(x, np.ndarray):
        return ("arr", str(x.dtype.kind), [shape(y, depth + 1) for y in x.tolist()] if x.ndim else shape(x.item(), depth + 1))
    if isinstance(x, (list, tuple)):
        return (type(x).__name__, [shape(y, depth + 1) for y in x])
    if isinstance(x, dict):
        return ("dict", [(shape(k, depth + 1), shape(v, depth + 1)) for k, v in x.items()])
    if isinstance(x, float) and x != x:
        return ("nan",)
    return (type(x).__name__, x)


def _snapshot():
    return sorted(((str(k), shape(v)) for k, v in K._context._context[0].items()), key=lambda kv: kv[0])


EVALS = [0]
_orig_eval = KlongInterpreter.eval


def _scalars():
    """the interpreter's own scalar attributes (whatever their names: counters, depth gauges, flags)"""
    return sorted((k, v) for k, v in K.__dict__.items() if v is None or type(v) in (int, float, bool, str))


def repeatable(k0: int, k1: int, k2: int, k3: int) -> bool:
    """
    pre: 0 <= k0 < len(_alpha()) and 0 <= k1 < len(_alpha()) and 0 <= k2 < len(_alpha()) and 0 <= k3 < len(_alpha())
    post: _
    """
    # parsing the same text twice gives structurally identical programs, leaves the variables alone, and both evaluate alike
    enter()
    n = CFG["n"]
    t = _text([k0, k1, k2, k3], n, _alpha())
    ctx = K._context._context
    while len(ctx) > 3:
        ctx.popleft()
    ctx[0].clear()
    K('a::7'); K('x1::[1 2]')
    before = _snapshot()
    res = []
    for rnd in range(2):
        K._module = None
        hidden0 = _scalars()
        try:
            i, p = K.prog(t)
            res.append(("ok", i, shape(p), p))
        except RecursionError:
            return verdict(False)
        except Exception as e:
            res.append(("err", type(e).__name__, None, None))
        K._module = None
        if _scalars() != hidden0:
            return verdict(False)                 # the parser keeps no state between calls: an accepted OR REJECTED text leaves
                                                  # every scalar attribute of the interpreter (counters, flags, modes) as it was
    K._module = None
    if res[0][:3] != res[1][:3]:
        return verdict(False)
    if _snapshot() != before:
        return verdict(False)                     # parsing has no effect on variables
    if res[0][0] != "ok":
        return verdict(True)
    text = t.concrete()
    if "." in text:
        return verdict(True)                      # system functions (.x = exit ...) are not evaluated here
    outs = []
    for r in res:
        ctx[0].clear(); K('a::7'); K('x1::[1 2]')
        sys.setrecursionlimit(400)
        try:
            v = [K.call(q) for q in r[3]]
            outs.append(("ok", shape(v)))
        except RecursionError:
            outs.append(("err", "RecursionError"))
        except Exception as e:
            outs.append(("err", type(e).__name__))
        finally:
            sys.setrecursionlimit(3000)
            while len(ctx) > 3:
                ctx.popleft()
    return verdict(outs[0] == outs[1])


LEXERS = ["skip_space", "skip", "read_shifted_comment", "read_num", "read_string", "read_sym", "read_op", "read_char", "kg_read",
          "read_list", "peek_adverb", "kg_read_neg"]


def progress(k0: int, k1: int, k2: int, k3: int, i: int) -> bool:
    """
    pre: 0 <= k0 < len(_alpha()) and 0 <= k1 < len(_alpha()) and 0 <= k2 < len(_alpha()) and 0 <= k3 < len(_alpha())
    pre: 0 <= i <= CFG['n']
    post: _
    """
    # the index a lexer function returns lies in [i, len+1] and is strictly larger whenever a token was returned
    enter()
    n = CFG["n"]; which = CFG["fn"]
    t = _text([k0, k1, k2, k3], n, _alpha())
    i = pick(list(range(n + 1)), i)
    tok = None; got_token = False
    try:
        if which == "skip_space":
            j = P.skip_space(t, i)
        elif which == "skip":
            j = P.skip(t, i)
        elif which == "read_shifted_comment":
            j = P.read_shifted_comment(t, i)
        elif which == "read_num":
            if i >= n or not (t[i].isnumeric() or t[i] == '-'):
                return True
            j, tok = P.read_num(t, i); got_token = True
        elif which == "read_string":
            j, tok = P.read_string(t, i)
        elif which == "read_sym":
            j, tok = P.read_sym(t, i)
        elif which == "read_op":
            if i >= n:
                return True
            j, tok = P.read_op(t, i); got_token = True
        elif which == "read_char":
            j, tok = P.read_char(t, i); got_token = True
        elif which == "kg_read":
            j, tok = _orig_kg_read(t, i); got_token = tok is not None
        elif which == "kg_read_neg":
            j, tok = _orig_kg_read(t, i, read_neg=True, ignore_newline=True); got_token = tok is not None
        elif which == "read_list":
            j, tok = P.read_list(t, ']', i)
        else:
            j, tok = P.peek_adverb(t, i); got_token = tok is not None
    except RecursionError:
        return verdict(False)
    except Exception:
        return verdict(True)                       # rejecting the input is progress enough: the caller stops
    ok = i <= j <= n + 1
    if got_token:
        ok = ok and j > i
    return verdict(ok)


# ------------------------------------------------------------------------------------------------ SymText conformance
def symtext_gate():
    """every line of the repository's .kg sources parses identically from str and from SymText (concrete positions)"""
    import glob
    lines = []
    for f in sorted(glob.glob(_REPO + "/tests/kgtests/language/*.kg") + glob.glob(_REPO + "/klongpy/lib/*.kg")):
        for ln in open(f, encoding="utf-8", errors="replace").read().split("\n"):
            if ln.strip():
                lines.append(ln)
    bad = 0; n = 0
    k1 = KlongInterpreter(); k2 = KlongInterpreter()
    for ln in lines[:1500]:
        n += 1
        outs = []
        for k, text in ((k1, ln), (k2, SymText(list(ln)))):
            k._module = None
            try:
                i, p = k.prog(text)
                outs.append(("ok", i, shape(p)))
            except RecursionError:
                outs.append(("err", "RecursionError"))
            except Exception as e:
                outs.append(("err", type(e).__name__))
        if outs[0] != outs[1]:
            bad += 1
    return {"name": "SymText conformance on %d corpus lines" % n, "status": "confirmed" if bad == 0 else "error",
            "why": "%d lines parse differently from str and SymText" % bad}


def long_text_family():
    """concrete companion sweep (vt/longtext.py): unterminated / unclosed texts of up to 4000 characters under a wall-clock cap"""
    import subprocess, json as _json
    root = os.path.dirname(os.path.dirname(os.path.dirname(os.path.abspath(__file__))))
    name = "long malformed texts (opener + up to 4000 filler characters) parse within the wall-clock cap (concrete sweep, not a solver verdict)"
    try:
        p = subprocess.run([sys.executable, "-W", "ignore", "-m", "vt.longtext"], capture_output=True, text=True, cwd=root, timeout=300,
                           env={**os.environ, "VT_MODE": "real"})
        r = _json.loads(p.stdout.strip().splitlines()[-1])
    except Exception as e:
        return {"name": name, "status": "inconclusive", "why": "sweep failed: %r" % (e,)}
    if not r["slow"]:
        return {"name": name, "status": "confirmed", "texts": r["texts"], "families": r["families"]}
    gen = os.path.join(root, ".gen", "replays"); os.makedirs(gen, exist_ok=True)
    path = os.path.join(gen, "C12-longtext.json")
    _json.dump(r, open(path, "w"), indent=1)
    c = r["slow"][0]
    return {"name": name, "status": "violated", "call": "prog(%r... of length %s)" % (c.get("text_head"), c.get("text_len")),
            "message": c["why"], "replay": path, "real": c["why"]}


def extra_obligations(tier):
    return [symtext_gate(), long_text_family()]


def bounds(tier):
    q = tier == "quick"
    return {"termination / repeatability": "all texts of length <= 2 over the 31-character alphabet and length 3 over the 14-character "
            "structural sub-alphabet" if q else "all texts of length <= 3 over the 31-character alphabet and length 4 over the sub-alphabet",
            "progress lemmas": "every lexer function, every start index, texts of length <= %d" % (2 if q else 3),
            "work bound": "40*(n+1)^2 kg_read calls, no RecursionError", "alphabet": ALPHA, "sub-alphabet": SUB}


def obligations(tier):
    q = tier == "quick"
    obs = []

    def add(name, fn, cfg_, t):
        obs.append({"name": name, "fn": fn, "cfg": cfg_, "timeout": t})
    for fn in ("terminates", "repeatable"):
        for n in (0, 1):
            add("%s n=%d full alphabet" % (fn, n), fn, {"n": n, "alpha": "full"}, 200)
        for c in range(len(ALPHA)):
            add("%s n=2 first=%r" % (fn, ALPHA[c]), fn, {"n": 2, "alpha": "full", "first": [c]}, 300 if q else 600)
        for c in range(len(SUB)):
            add("%s n=3 sub-alphabet first=%r" % (fn, SUB[c]), fn, {"n": 3, "alpha": "sub", "first": [c]}, 400 if q else 900)
        if not q:
            for c in range(len(ALPHA)):
                for d in range(0, len(ALPHA), 1):
                    add("%s n=3 first=%r%r" % (fn, ALPHA[c], ALPHA[d]), fn, {"n": 3, "alpha": "full", "first": [c, d]}, 1200)
            for c in range(len(SUB)):
                for d in range(len(SUB)):
                    add("%s n=4 sub-alphabet first=%r%r" % (fn, SUB[c], SUB[d]), fn, {"n": 4, "alpha": "sub", "first": [c, d]}, 1500)
    for f in LEXERS:
        add("progress %s n=%d" % (f, 2 if q else 3), "progress", {"n": 2 if q else 3, "fn": f, "alpha": "full"}, 400 if q else 1500)
    return obs
