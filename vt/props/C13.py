"""C13 (claimed in part) - messages are framed and delivered intact, one by one, in order; each server command reaches its branch.

Real code executed symbolically: encode_message, decode_message_len, decode_message, stream_send_msg, stream_recv_msg,
execute_server_command.  Stand-ins: pickle -> an opaque injective codec (identity on symbolic bytes), struct '!I' ->
big-endian arithmetic, uuid.UUID -> a 16-byte wrapper, reader = the readexactly contract over the concatenated stream.
"""
from vt.world import enter, verdict, cfg, CFG, pick
import klongpy.sys_fn_ipc as IPC
from klongpy.core import KGSym, KGFn, KGLambda, KGFnWrapper, KlongException
from vt.props.ipcstub import Fut, step, Prov, Loop, patch, unpatch

PROPERTY = "C13"
FUNCTIONS = ["klongpy.sys_fn_ipc.encode_message", "klongpy.sys_fn_ipc.decode_message_len", "klongpy.sys_fn_ipc.decode_message",
             "klongpy.sys_fn_ipc.stream_send_msg", "klongpy.sys_fn_ipc.stream_recv_msg", "klongpy.sys_fn_ipc.execute_server_command"]
ASSUMPTIONS = [
    "pickle.dumps/loads = an opaque injective codec (identity on bytes): that a VALUE survives pickle (C code) is not examined",
    "struct.pack/unpack('!I') = big-endian arithmetic on 4 bytes",
    "asyncio.StreamReader.readexactly returns exactly n bytes or raises IncompleteReadError, however the stream is fragmented (trusted contract)",
    "message ids are concrete and pairwise distinct 16-byte strings (nothing branches on their content)",
    "the interpreter behind execute_server_command is a recording stand-in (dict + call log)",
]
OUTSIDE = ["value fidelity through pickle (e.g. :undefined identity after transport)", "end-to-end equivalence against a live server",
           "real sockets"]


class Codec:
    @staticmethod
    def dumps(m):
        return m

    @staticmethod
    def loads(b):
        return b


class Struct:
    @staticmethod
    def pack(fmt, n):
        assert fmt == "!I"
        return bytes([(n >> 24) & 255, (n >> 16) & 255, (n >> 8) & 255, n & 255])

    @staticmethod
    def unpack(fmt, b):
        assert fmt == "!I" and len(b) == 4
        return ((b[0] << 24) | (b[1] << 16) | (b[2] << 8) | b[3],)


class Uid:
    def __init__(self, bytes=None):
        self.bytes = bytes

    def __eq__(self, o):
        return self.bytes == o.bytes

    def __hash__(self):
        return hash(self.bytes)


class UuidNS:
    UUID = Uid


class Reader:
    def __init__(self, data, cut):
        self.data = data; self.limit = cut; self.pos = 0

    async def readexactly(self, n):
        if self.pos + n > self.limit:
            raise IPC.IncompleteReadError(self.data[self.pos:self.limit], n)
        r = self.data[self.pos:self.pos + n]; self.pos += n
        return r


class Writer:
    def __init__(self):
        self.buf = b""; self.drains = 0

    def write(self, b):
        self.buf = self.buf + b

    async def drain(self):
        self.drains += 1


IDS = [bytes(range(16)), bytes(range(100, 116)), bytes(range(200, 216))]


def frames(p1: bytes, p2: bytes, p3: bytes, cut: int) -> bool:
    """
    pre: len(p1) <= CFG.get('maxlen', 3) and len(p2) <= CFG.get('maxlen', 3) and len(p3) <= CFG.get('maxlen', 3)
    pre: 0 <= cut <= 100
    post: _
    """
    # n frames are sent with the real stream_send_msg, the stream is cut after `cut` bytes (cut >= total: complete),
    # and read back with the real stream_recv_msg
    enter()
    n = cfg("frames", 2)
    ps = [p1, p2, p3][:n]
    patch(pickle=Codec, struct=Struct, uuid=UuidNS)
    try:
        w = Writer()
        for i in range(n):
            k, v = step(IPC.stream_send_msg(w, Uid(IDS[i]), ps[i]))
            if k != 'ret':
                return verdict(False)
        stream = w.buf
        total = len(stream)
        want = 0
        for i in range(n):
            want = want + 20 + len(ps[i])
        if total != want or w.drains != n:
            return verdict(False)
        if cut > total:
            cut = total
        rd = Reader(stream, cut)
        boundary = 0
        for i in range(n):
            boundary = boundary + 20 + len(ps[i])
            k, v = step(IPC.stream_recv_msg(rd))
            if cut < boundary:
                # the stream ends inside (or before) this frame: an error, never a message that was not sent
                return verdict(k == 'exc' and isinstance(v, IPC.IncompleteReadError))
            if not (k == 'ret' and v[0].bytes == IDS[i] and v[1] == ps[i] and rd.pos == boundary):
                return verdict(False)
        # nothing after the last frame
        k, v = step(IPC.stream_recv_msg(rd))
        return verdict(k == 'exc' and isinstance(v, IPC.IncompleteReadError))
    finally:
        unpatch()


# ------------------------------------------------------------------------------------------- server command dispatch
class _PyFn:
    """a callable that is not a KGLambda"""
    def __init__(self, log):
        self.log = log

    def __call__(self, *a):
        self.log.append(('pyfn', a)); return ('pyfn-result', a)


class _Lam(KGLambda):
    def __init__(self, log):
        self.log = log

    def __call__(self, klong, ctx):
        self.log.append(('lambda', dict(ctx))); return ('lambda-result', len(ctx))

    def get_arity(self):
        return 2


class FakeKlong:
    def __init__(self, table, log):
        self.t = table; self.log = log; self._context = {}

    def __getitem__(self, k):
        self.log.append(('get', k, self._context.get(KGSym('.cli.h'))))
        return self.t[k]

    def __setitem__(self, k, v):
        self.log.append(('set', k, v, self._context.get(KGSym('.cli.h'))))
        self.t[k] = v

    def __call__(self, s):
        self.log.append(('eval', s, self._context.get(KGSym('.cli.h'))))
        if s == "boom":
            raise ValueError("eval failed")
        if s == "fn":
            return KGFn("a", None, 2)
        return ('evaluated', s)


def dispatch(kind: int, a: int, b: int) -> bool:
    """
    pre: 0 <= kind <= 10
    post: _
    """
    enter()
    log = []
    sym = KGSym('name')
    pyfn = _PyFn(log); lam = _Lam(log)
    table = {}
    nc = object()
    fut = Fut()
    expect_exc = None; expect = None
    if kind == 0:
        table[sym] = pyfn; cmd = IPC.KGRemoteFnCall(sym, [a, b]); expect = ('pyfn-result', (a, b))
    elif kind == 1:
        table[sym] = lam; cmd = IPC.KGRemoteFnCall(sym, [a, b]); expect = ('lambda-result', 2)
    elif kind == 2:
        table[sym] = 5; cmd = IPC.KGRemoteFnCall(sym, [a]); expect_exc = "internal error"
    elif kind == 3:
        cmd = IPC.KGRemoteFnCall(sym, [a]); expect_exc = "symbol not found"
    elif kind == 4:
        cmd = IPC.KGRemoteDictSetCall(sym, a); expect = None
    elif kind == 5:
        table[sym] = b; cmd = IPC.KGRemoteDictGetCall(sym); expect = b
    elif kind == 6:
        cmd = IPC.KGRemoteDictGetCall(sym); expect_exc = "symbol not found"
    elif kind == 7:
        cmd = "1+1"; expect = ('evaluated', "1+1")
    elif kind == 8:
        cmd = "boom"; expect_exc = "internal error"
    elif kind == 9:
        cmd = "fn"; expect = 'fnref'
    else:
        inner = KGFn("a", None, 1)
        table[sym] = KGFnWrapper(None, inner, sym=sym); cmd = IPC.KGRemoteDictGetCall(sym); expect = 'fnref1'

    class _TB:
        @staticmethod
        def print_exception(*a, **k):
            pass
    import sys
    real_tb = sys.modules.get('traceback')
    klong = FakeKlong(table, log)
    patch()
    import traceback as _tbm
    saved_pe = _tbm.print_exception
    _tbm.print_exception = lambda *a, **k: None
    try:
        k, v = step(IPC.execute_server_command(Loop(), fut, klong, cmd, nc))
    finally:
        _tbm.print_exception = saved_pe
        unpatch()
    if k != 'ret':
        return verdict(False)
    if KGSym('.cli.h') in klong._context:
        return verdict(False)                      # the connection handle is popped again, whatever happened
    for e in log:
        if e[0] in ('get', 'set', 'eval') and e[-1] is not nc:
            return verdict(False)                  # ... and was visible as .cli.h while the command ran
    if fut.sets != 1:
        return verdict(False)                      # exactly one completion
    if expect_exc is not None:
        return verdict(fut.state == 'exc' and isinstance(fut.val, KlongException) and str(fut.val).startswith(expect_exc))
    if fut.state != 'result':
        return verdict(False)
    if expect == 'fnref':
        return verdict(isinstance(fut.val, IPC.KGRemoteFnRef) and fut.val.arity == 2)
    if expect == 'fnref1':
        return verdict(isinstance(fut.val, IPC.KGRemoteFnRef) and fut.val.arity == 1)
    if kind == 0:
        return verdict(fut.val == expect and log[-1] == ('pyfn', (a, b)))
    if kind == 1:
        return verdict(fut.val == expect and log[-1][0] == 'lambda' and list(log[-1][1].values()) == [a, b])
    if kind == 4:
        return verdict(fut.val is None and table[sym] == a)
    return verdict(fut.val == expect)


def bounds(tier):
    q = tier == "quick"
    return {"frames": "2 (payload <= 3 bytes each)" if q else "2 (payload <= 6 bytes) and 3 (payload <= 3 bytes)",
            "cut point": "any byte position of the stream, or none", "commands": "11 command/interpreter-state classes, symbolic integer parameters"}


def obligations(tier):
    q = tier == "quick"
    obs = [{"name": "framing 2 frames payload<=3", "fn": "frames", "cfg": {"frames": 2, "maxlen": 3}, "timeout": 300 if q else 900},
           {"name": "server command dispatch", "fn": "dispatch", "cfg": {}, "timeout": 120}]
    if not q:
        obs.append({"name": "framing 3 frames payload<=3", "fn": "frames", "cfg": {"frames": 3, "maxlen": 3}, "timeout": 1800})
        obs.append({"name": "framing 2 frames payload<=6", "fn": "frames", "cfg": {"frames": 2, "maxlen": 6}, "timeout": 1800})
    return obs
