"""C13 (claimed in part) - messages are framed and delivered intact, one by one, in order; each server command reaches its branch.

Real code executed symbolically: encode_message, decode_message_len, decode_message, stream_send_msg, stream_recv_msg,
execute_server_command.  Stand-ins: pickle -> an opaque injective codec (identity on symbolic bytes), struct '!I' ->
big-endian arithmetic, uuid.UUID -> a 16-byte wrapper, reader = the readexactly contract over the concatenated stream.
"""
from vt.world import enter, verdict, cfg, CFG, pick, MODE, untraced
import klongpy.sys_fn_ipc as IPC
from klongpy.core import KGSym, KGFn, KGLambda, KGFnWrapper, KlongException
from vt.props.ipcstub import Fut, step, Prov, Loop, patch, unpatch

PROPERTY = "C13"
FUNCTIONS = ["klongpy.sys_fn_ipc.NetworkClient.__call__", "klongpy.sys_fn_ipc.KGRemoteFnProxy.__call__",
             "klongpy.sys_fn_ipc.NetworkClientDictHandle.get", "klongpy.sys_fn_ipc.NetworkClientDictHandle.set",
             "klongpy.sys_fn_ipc.run_command_on_klongloop", "klongpy.sys_fn_ipc.encode_message", "klongpy.sys_fn_ipc.decode_message_len", "klongpy.sys_fn_ipc.decode_message",
             "klongpy.sys_fn_ipc.stream_send_msg", "klongpy.sys_fn_ipc.stream_recv_msg", "klongpy.sys_fn_ipc.execute_server_command"]
ASSUMPTIONS = [
    "pickle.dumps/loads = an opaque injective codec (identity on bytes): that a VALUE survives pickle (C code) is not examined",
    "struct.pack/unpack('!I') = big-endian arithmetic on 4 bytes",
    "asyncio.StreamReader.readexactly returns exactly n bytes or raises IncompleteReadError, however the stream is fragmented (trusted contract)",
    "message ids are concrete and pairwise distinct 16-byte strings (nothing branches on their content)",
    "the interpreter behind execute_server_command is a recording stand-in (dict + call log)",
]
OUTSIDE = ["value fidelity through pickle (e.g. :undefined identity after transport)", "end-to-end equivalence against a live server",
           "real sockets"]


class Codec:
    @staticmethod
    def dumps(m):
        return m

    @staticmethod
    def loads(b):
        return b


class Struct:
    @staticmethod
    def pack(fmt, n):
        assert fmt == "!I"
        return bytes([(n >> 24) & 255, (n >> 16) & 255, (n >> 8) & 255, n & 255])

    @staticmethod
    def unpack(fmt, b):
        assert fmt == "!I" and len(b) == 4
        return ((b[0] << 24) | (b[1] << 16) | (b[2] << 8) | b[3],)


class Uid:
    def __init__(self, bytes=None):
        self.bytes = bytes

    def __eq__(self, o):
        return self.bytes == o.bytes

    def __hash__(self):
        return hash(self.bytes)


class UuidNS:
    UUID = Uid


class Reader:
    def __init__(self, data, cut):
        self.data = data; self.limit = cut; self.pos = 0

    async def readexactly(self, n):
        if self.pos + n > self.limit:
            raise IPC.IncompleteReadError(self.data[self.pos:self.limit], n)
        r = self.data[self.pos:self.pos + n]; self.pos += n
        return r


class Writer:
    def __init__(self):
        self.buf = b""; self.drains = 0

    def write(self, b):
        self.buf = self.buf + b

    async def drain(self):
        self.drains += 1


IDS = [bytes(range(16)), bytes(range(100, 116)), bytes(range(200, 216))]


def frames(p1: bytes, p2: bytes, p3: bytes, cut: int) -> bool:
    """
    pre: len(p1) <= CFG.get('maxlen', 3) and len(p2) <= CFG.get('maxlen', 3) and len(p3) <= CFG.get('maxlen', 3)
    pre: 0 <= cut <= 100
    post: _
    """
    # n frames are sent with the real stream_send_msg, the stream is cut after `cut` bytes (cut >= total: complete),
    # and read back with the real stream_recv_msg
    enter()
    n = cfg("frames", 2)
    ps = [p1, p2, p3][:n]
    patch(pickle=Codec, struct=Struct, uuid=UuidNS)
    try:
        w = Writer()
        for i in range(n):
            k, v = step(IPC.stream_send_msg(w, Uid(IDS[i]), ps[i]))
            if k != 'ret':
                return verdict(False)
        stream = w.buf
        total = len(stream)
        want = 0
        for i in range(n):
            want = want + 20 + len(ps[i])
        if total != want or w.drains != n:
            return verdict(False)
        if cut > total:
            cut = total
        rd = Reader(stream, cut)
        boundary = 0
        for i in range(n):
            boundary = boundary + 20 + len(ps[i])
            k, v = step(IPC.stream_recv_msg(rd))
            if cut < boundary:
                # the stream ends inside (or before) this frame: an error, never a message that was not sent
                return verdict(k == 'exc' and isinstance(v, IPC.IncompleteReadError))
            if not (k == 'ret' and v[0].bytes == IDS[i] and v[1] == ps[i] and rd.pos == boundary):
                return verdict(False)
        # nothing after the last frame
        k, v = step(IPC.stream_recv_msg(rd))
        return verdict(k == 'exc' and isinstance(v, IPC.IncompleteReadError))
    finally:
        unpatch()


# ------------------------------------------------------------------------------------------- framing over abstract lengths
# The payload bytes never influence framing; their LENGTHS do.  Here a frame body is an opaque block whose length is a symbolic
# integer anywhere in [0, 2^32), so size thresholds in the reading code (chunked reads, buffer limits) are inside the search.
class Desync(Exception):
    """a header field was assembled from bytes that are not that field: the reader has lost the frame boundaries"""


class AB:
    """abstract bytes: a sequence of parts  ('id', i) 16 bytes | ('len', value) 4 bytes | ('body', i, lo, hi) bytes lo..hi of body i"""
    def __init__(self, parts=()):
        out = []
        for p in parts:
            if AB.plen(p) == 0:
                continue
            q = out[-1] if out else None
            if q is not None and len(p) == 4 and len(q) == 4 and p[0] == q[0] and p[1] == q[1] and q[3] == p[2]:
                out[-1] = (p[0], p[1], q[2], p[3])        # consecutive pieces of the same field / body are that longer piece
            else:
                out.append(p)
        self.parts = out

    @staticmethod
    def plen(p):
        if p[0] == 'id':
            return 16 if len(p) == 2 else p[3] - p[2]
        if p[0] == 'len':
            return 4 if len(p) == 2 else p[3] - p[2]
        return p[3] - p[2]

    def __len__(self):
        n = 0
        for p in self.parts:
            n = n + AB.plen(p)
        return n

    def __add__(self, o):
        if isinstance(o, (bytes, bytearray)) and len(o) == 0:
            return self
        return AB(self.parts + _ab(o).parts)

    def __radd__(self, o):
        if isinstance(o, (bytes, bytearray)) and len(o) == 0:
            return self
        return AB(_ab(o).parts + self.parts)

    def cut(self, a, b):
        """bytes a..b of this sequence (0 <= a <= b <= len)"""
        out = []; off = 0
        for p in self.parts:
            n = AB.plen(p)
            lo = a - off if a > off else 0
            hi = b - off if b - off < n else n
            if lo < hi:
                if lo == 0 and hi == n:
                    out.append(p)
                else:
                    base = p[2] if len(p) == 4 else 0
                    tag = p[:2]
                    out.append((tag[0], tag[1], base + lo, base + hi))
            off = off + n
        return AB(out)


_IDPARTS = {}


def _ab(o):
    if isinstance(o, AB):
        return o
    if isinstance(o, (bytes, bytearray)):
        o = bytes(o)
        if o in _IDPARTS:
            return AB([('id', _IDPARTS[o])])
        if len(o) == 0:
            return AB()
    raise Desync("concrete bytes mixed into the abstract stream")


class ABytearray:
    """bytearray stand-in for code that collects chunks (buf = bytearray(); buf += chunk; bytes(buf)) over the abstract stream"""
    def __init__(self, init=b""):
        self.ab = _ab(init) if not isinstance(init, int) else AB()

    def __iadd__(self, o):
        self.ab = self.ab + o
        return self

    def extend(self, o):
        self.ab = self.ab + o

    def __len__(self):
        return len(self.ab)

    def __bool__(self):
        return len(self.ab) > 0


def abytes(x=b"", *a):
    if isinstance(x, ABytearray):
        return x.ab
    if isinstance(x, AB):
        return x
    return bytes(x, *a)


class ACodec:
    """pickle stand-in over abstract payloads.  Like the real pickle.loads it stops at the end of the pickled object: trailing
    bytes after a complete body are ignored (which is exactly why an over-read is silent)."""
    @staticmethod
    def dumps(m):
        return AB([('body', m.i, 0, m.n)])

    @staticmethod
    def loads(b):
        b = _ab(b)
        if not b.parts:
            raise EOFError("Ran out of input")
        p = b.parts[0]
        if p[0] != 'body' or p[2] != 0:
            raise Desync("payload does not start at a body")
        if p[3] != ACodec.bodies[p[1]].n:
            raise EOFError("pickle data was truncated")
        return ACodec.bodies[p[1]]
    bodies = []


class AStruct:
    class error(Exception):
        pass

    @staticmethod
    def pack(fmt, n):
        assert fmt == "!I"
        if n < 0 or n >= 4294967296:
            raise AStruct.error("'I' format requires 0 <= number <= 4294967295")
        return AB([('len', n)])

    @staticmethod
    def unpack(fmt, b):
        b = _ab(b)
        if len(b.parts) != 1 or b.parts[0][0] != 'len' or len(b.parts[0]) != 2:
            raise Desync("length field assembled from other bytes")
        return (b.parts[0][1],)


class AUid:
    def __init__(self, bytes=None):
        if isinstance(bytes, AB):
            if len(bytes.parts) != 1 or bytes.parts[0][0] != 'id' or len(bytes.parts[0]) != 2:
                raise Desync("message id assembled from other bytes")
            self.i = bytes.parts[0][1]; self.bytes = IDS[self.i]
        else:
            self.bytes = bytes; self.i = IDS.index(bytes)


class AUuidNS:
    UUID = AUid


class Body:
    def __init__(self, i, n):
        self.i = i; self.n = n


class AReader:
    """asyncio.StreamReader contract over the abstract stream: readexactly(n) returns exactly n bytes or raises
    IncompleteReadError; read(n) returns at least one and at most n of the bytes that have arrived (how many is the
    environment's choice: symbolic), b'' at end of stream."""
    def __init__(self, stream, limit, choices):
        self.s = stream; self.limit = limit; self.pos = 0; self.choices = list(choices)

    async def readexactly(self, n):
        if n < 0:
            raise ValueError("readexactly size can not be less than zero")
        if self.pos + n > self.limit:
            part = self.s.cut(self.pos, self.limit); self.pos = self.limit
            raise IPC.IncompleteReadError(part, n)
        r = self.s.cut(self.pos, self.pos + n); self.pos = self.pos + n
        return r if n > 0 else b""

    async def read(self, n=-1):
        avail = self.limit - self.pos
        if avail <= 0:
            return b""
        if n < 0 or n > avail:
            n = avail
        k = self.choices.pop(0) if self.choices else n
        if k < 1 or k > n:
            k = n
        r = self.s.cut(self.pos, self.pos + k); self.pos = self.pos + k
        return r


class AWriter:
    def __init__(self):
        self.buf = AB(); self.drains = 0; self.events = []

    def write(self, b):
        self.buf = self.buf + b; self.events.append("w")

    async def drain(self):
        self.drains += 1; self.events.append("d")


def _payload_of_pickled_len(want):
    """a bytes value whose pickle is `want` bytes long (or as close as possible)"""
    import pickle as _p
    if want <= 4:
        return None
    k = max(0, want - 40)
    best = b""
    while k <= want:
        v = b"x" * k
        n = len(_p.dumps(v))
        if n == want:
            return v
        if n > want:
            break
        best = v; k += 1
    return best


def _real_frames(ls, cut, rs):
    """replay on the REAL implementation: real pickle / struct / uuid, a real asyncio.StreamReader fed with the real frames in
    three fragmentations (all at once, guided by the partial-read sizes of the counterexample, small drips)"""
    import asyncio, uuid as _uuid
    ids = [_uuid.UUID(bytes=IDS[i]) for i in range(len(ls))]
    payloads = [_payload_of_pickled_len(min(l, 1 << 22)) for l in ls]
    frames_ = [IPC.encode_message(ids[i], payloads[i]) for i in range(len(ls))]
    data = b"".join(frames_)

    class _RecWriter:
        def __init__(self):
            self.events = []; self.buf = b""

        def write(self, b):
            self.events.append("w"); self.buf += bytes(b)

        async def drain(self):
            self.events.append("d")
    for i in range(len(ls)):
        rw = _RecWriter()
        asyncio.run(IPC.stream_send_msg(rw, ids[i], payloads[i]))
        ev = rw.events
        if rw.buf != frames_[i] or "w" not in ev or "d" not in ev or "w" in ev[ev.index("d"):]:
            return False                              # frame not handed over in one piece before the first suspension point
    total = len(data)
    cutb = total if cut >= sum(20 + l for l in ls) else min(cut, total)
    bounds_ = []
    acc = 0
    for f in frames_:
        acc += len(f); bounds_.append(acc)
    frag_sets = [[cutb], [20] + [r for r in rs if r > 0] + [cutb], [7] * 50 + [cutb]]

    async def run(frags):
        reader = asyncio.StreamReader()
        fed = 0
        out = []

        async def feeder():
            nonlocal fed
            for f in frags:
                k = min(f, cutb - fed)
                if k > 0:
                    reader.feed_data(data[fed:fed + k]); fed += k
                await asyncio.sleep(0)
            if fed < cutb:
                reader.feed_data(data[fed:cutb]); fed = cutb
            reader.feed_eof()
        t = asyncio.ensure_future(feeder())
        for i in range(len(ls) + 1):
            try:
                out.append(("ret", await asyncio.wait_for(IPC.stream_recv_msg(reader), 20)))
            except Exception as e:
                out.append(("exc", e)); break
        await t
        return out
    for frags in frag_sets:
        out = asyncio.run(run(frags))
        for i in range(len(ls)):
            complete = cutb >= bounds_[i]
            if i >= len(out):
                return False
            k, v = out[i]
            if complete:
                if not (k == "ret" and v[0] == ids[i] and v[1] == payloads[i]):
                    return False
            else:
                if k != "exc":
                    return False
                break
        else:
            if len(out) != len(ls) + 1 or out[-1][0] != "exc":
                return False
    return True


def frames_abstract(l1: int, l2: int, l3: int, cut: int, r1: int, r2: int, r3: int, r4: int) -> bool:
    """
    pre: 4 <= l1 < 4294967296 and 4 <= l2 < 4294967296 and 4 <= l3 < 4294967296
    pre: 0 <= cut
    post: _
    """
    # n frames whose bodies have ANY length below 2^32; the stream is complete or cut anywhere; partial reads return any
    # legal amount.  Each receive must return its own frame and leave the reader exactly on the next frame boundary.
    enter()
    n = cfg("frames", 3)
    ls = [l1, l2, l3][:n]
    if MODE == "real":
        return _real_frames(ls, cut, [r1, r2, r3, r4])
    bodies = [Body(i, ls[i]) for i in range(n)]
    ACodec.bodies = bodies
    _IDPARTS.clear()
    for i in range(n):
        _IDPARTS[IDS[i]] = i
    patch(pickle=ACodec, struct=AStruct, uuid=AUuidNS, bytearray=ABytearray, bytes=abytes)
    try:
        w = AWriter()
        for i in range(n):
            e0 = len(w.events)
            k, v = step(IPC.stream_send_msg(w, AUid(IDS[i]), bodies[i]))
            if k != 'ret':
                return verdict(False)
            # sending one message is atomic on the IO loop: every byte of the frame is handed to the transport BEFORE the first
            # point at which another sender on the same connection could run (drain may suspend)
            ev = w.events[e0:]
            if "w" not in ev or "d" not in ev or "w" in ev[ev.index("d"):]:
                return verdict(False)
        stream = w.buf
        total = len(stream)
        want = 0
        for i in range(n):
            want = want + 20 + ls[i]
        if total != want:
            return verdict(False)
        if cut > total:
            cut = total
        rd = AReader(stream, cut, [r1, r2, r3, r4])
        boundary = 0
        for i in range(n):
            boundary = boundary + 20 + ls[i]
            try:
                k, v = step(IPC.stream_recv_msg(rd))
            except Desync:
                return verdict(False)
            if k == 'exc' and isinstance(v, Desync):
                return verdict(False)
            if k == 'exc' and isinstance(v, TypeError):
                # the code under test applied a bytes operation the abstract payload does not implement (e.g. b"".join of
                # chunks).  The position of the reader is still meaningful: past the frame boundary = bytes of the next frame eaten
                if cut >= boundary and rd.pos > boundary:
                    return verdict(False)
                from vt.world import cut as _cutpath
                _cutpath("abstract payload met an unsupported bytes operation"); return True
            if cut < boundary:
                return verdict(k == 'exc' and isinstance(v, (IPC.IncompleteReadError, EOFError)))
            if not (k == 'ret' and v[0].bytes == IDS[i] and v[1] is bodies[i] and rd.pos == boundary):
                return verdict(False)
        k, v = step(IPC.stream_recv_msg(rd))
        return verdict(k == 'exc' and isinstance(v, IPC.IncompleteReadError))
    finally:
        unpatch()


# ------------------------------------------------------------------------------------------- server command dispatch
class _PyFn:
    """a callable that is not a KGLambda"""
    def __init__(self, log):
        self.log = log

    def __call__(self, *a):
        self.log.append(('pyfn', a)); return ('pyfn-result', a)


class _Lam(KGLambda):
    def __init__(self, log):
        self.log = log

    def __call__(self, klong, ctx):
        self.log.append(('lambda', dict(ctx))); return ('lambda-result', len(ctx))

    def get_arity(self):
        return 2


class FakeKlong:
    def __init__(self, table, log):
        self.t = table; self.log = log; self._context = {}

    def __getitem__(self, k):
        self.log.append(('get', k, self._context.get(KGSym('.cli.h'))))
        return self.t[k]

    def __setitem__(self, k, v):
        self.log.append(('set', k, v, self._context.get(KGSym('.cli.h'))))
        self.t[k] = v

    def __call__(self, s):
        self.log.append(('eval', s, self._context.get(KGSym('.cli.h'))))
        if s == "boom":
            raise ValueError("eval failed")
        if s == "keyerr":
            raise KeyError("price")              # a Python function called by the expression failed a dict lookup
        if s == "fn":
            return KGFn("a", None, 2)
        if KGSym(s) in self.t:
            return self.t[KGSym(s)]
        return ('evaluated', s)


def dispatch(kind: int, a: int, b: int) -> bool:
    """
    pre: 0 <= kind <= 12
    post: _
    """
    enter()
    log = []
    sym = KGSym('name')
    pyfn = _PyFn(log); lam = _Lam(log)
    table = {}
    nc = object()
    fut = Fut()
    expect_exc = None; expect = None
    if kind == 0:
        table[sym] = pyfn; cmd = IPC.KGRemoteFnCall(sym, [a, b]); expect = ('pyfn-result', (a, b))
    elif kind == 1:
        table[sym] = lam; cmd = IPC.KGRemoteFnCall(sym, [a, b]); expect = ('lambda-result', 2)
    elif kind == 2:
        table[sym] = 5; cmd = IPC.KGRemoteFnCall(sym, [a]); expect_exc = "internal error"
    elif kind == 3:
        cmd = IPC.KGRemoteFnCall(sym, [a]); expect_exc = "symbol not found"
    elif kind == 4:
        cmd = IPC.KGRemoteDictSetCall(sym, a); expect = None
    elif kind == 5:
        table[sym] = b; cmd = IPC.KGRemoteDictGetCall(sym); expect = b
    elif kind == 6:
        cmd = IPC.KGRemoteDictGetCall(sym); expect_exc = "symbol not found"
    elif kind == 7:
        cmd = "1+1"; expect = ('evaluated', "1+1")
    elif kind == 8:
        cmd = "boom"; expect_exc = "internal error"
    elif kind == 9:
        cmd = "fn"; expect = 'fnref'
    elif kind == 11:
        cmd = "keyerr"; expect_exc = ""                       # whatever the message: the caller must get an error, not silence
    elif kind == 12:
        class _Raising(_PyFn):
            def __call__(self, *a):
                self.log.append(('pyfn', a)); raise KeyError("missing")
        table[sym] = _Raising(log); cmd = IPC.KGRemoteFnCall(sym, [a]); expect_exc = ""
    else:
        inner = KGFn("a", None, 1)
        table[sym] = KGFnWrapper(None, inner, sym=sym); cmd = IPC.KGRemoteDictGetCall(sym); expect = 'fnref1'

    class _TB:
        @staticmethod
        def print_exception(*a, **k):
            pass
    import sys
    real_tb = sys.modules.get('traceback')
    klong = FakeKlong(table, log)
    patch()
    import traceback as _tbm
    saved_pe = _tbm.print_exception
    _tbm.print_exception = lambda *a, **k: None
    try:
        k, v = step(IPC.execute_server_command(Loop(), fut, klong, cmd, nc))
    finally:
        _tbm.print_exception = saved_pe
        unpatch()
    if k != 'ret':
        return verdict(False)
    if KGSym('.cli.h') in klong._context:
        return verdict(False)                      # the connection handle is popped again, whatever happened
    for e in log:
        if e[0] in ('get', 'set', 'eval') and e[-1] is not nc:
            return verdict(False)                  # ... and was visible as .cli.h while the command ran
    if fut.sets != 1:
        return verdict(False)                      # exactly one completion
    if expect_exc is not None:
        return verdict(fut.state == 'exc' and isinstance(fut.val, KlongException) and str(fut.val).startswith(expect_exc))
    if fut.state != 'result':
        return verdict(False)
    if expect == 'fnref':
        return verdict(isinstance(fut.val, IPC.KGRemoteFnRef) and fut.val.arity == 2)
    if expect == 'fnref1':
        return verdict(isinstance(fut.val, IPC.KGRemoteFnRef) and fut.val.arity == 1)
    if kind == 0:
        return verdict(fut.val == expect and log[-1] == ('pyfn', (a, b)))
    if kind == 1:
        return verdict(fut.val == expect and log[-1][0] == 'lambda' and list(log[-1][1].values()) == [a, b])
    if kind == 4:
        return verdict(fut.val is None and table[sym] == a)
    return verdict(fut.val == expect)


class _LamFn(KGLambda):
    """a server-side dyadic function (as an imported Python function would be): x - 2*y"""
    def __init__(self, log):
        self.log = log

    def __call__(self, klong, ctx):
        from klongpy.core import reserved_fn_symbols
        x = ctx[reserved_fn_symbols[0]]; y = ctx[reserved_fn_symbols[1]]
        self.log.append(('fn', x, y)); return x - 2 * y

    def get_arity(self):
        return 2


class _StubClient(IPC.NetworkClient):
    """the real client-side handle code (NetworkClient.__call__, KGRemoteFnProxy, NetworkClientDictHandle) over a transport that
    hands every message straight to the real server-side execute_server_command"""
    def __init__(self, server):
        # the real constructor runs (a refactoring may add state there); loops, interpreter and provider are inert stand-ins
        IPC.NetworkClient.__init__(self, Loop(), Loop(), server, Prov(True))
        self.server = server; self.sent = []

    def is_open(self):
        return True

    def call(self, msg):
        self.sent.append(msg)
        fut = Fut()
        k, v = step(IPC.execute_server_command(Loop(), fut, self.server, msg, self))
        if k != 'ret':
            raise RuntimeError("server coroutine did not finish")
        return fut.result()


def remote_forms(kind: int, a: int, b: int) -> bool:
    """
    pre: 0 <= kind <= 8
    post: _
    """
    # every remote operation form of the client returns / stores what the same operation yields locally on the server:
    # f("expr"), f(:name,args), a function proxy q(args) obtained from f(:name) or from the remote dictionary, remote dict get/set
    enter()
    from klongpy.core import reserved_fn_symbols, KLONG_UNDEFINED
    X, Y = reserved_fn_symbols[0], reserved_fn_symbols[1]
    log = []
    name = KGSym('name'); val = KGSym('val'); undef = KGSym('undef')
    table = {name: _LamFn(log), val: b, undef: KLONG_UNDEFINED}
    server = FakeKlong(table, log)
    nc = _StubClient(server)
    d = IPC.NetworkClientDictHandle(nc)
    patch()
    import traceback as _tbm
    saved_pe = _tbm.print_exception
    _tbm.print_exception = lambda *a_, **k_: None
    try:
        if kind == 0:                       # f("expr")
            r = nc(None, {X: "1+1"})
            return verdict(r == ('evaluated', "1+1") and nc.sent == ["1+1"])
        if kind == 1:                       # f(:name,a,b)
            r = nc(None, {X: [name, a, b]})
            m = nc.sent[0]
            return verdict(r == a - 2 * b and isinstance(m, IPC.KGRemoteFnCall) and m.sym == name and list(m.params) == [a, b]
                           and log[-1] == ('fn', a, b))
        if kind == 2:                       # q::f(:name); q(a;b)
            q = nc(None, {X: name})
            if not isinstance(q, IPC.KGRemoteFnProxy) or q.get_arity() != 2:
                return verdict(False)
            r = q(None, {X: a, Y: b})
            return verdict(r == a - 2 * b and log[-1] == ('fn', a, b))
        if kind == 3:                       # d?:val
            return verdict(d.get(val) == b and d[val] == b)
        if kind == 4:                       # d,:val,a then d?:val ; other bindings unaffected
            d.set(val, a)
            return verdict(table[val] == a and d.get(val) == a and table[undef] is KLONG_UNDEFINED)
        if kind == 5:                       # q::d?:name; q(a;b)
            q = d.get(name)
            if not isinstance(q, IPC.KGRemoteFnProxy):
                return verdict(False)
            return verdict(q(None, {X: a, Y: b}) == a - 2 * b)
        if kind == 6:                       # :undefined arrives as :undefined
            return verdict(d.get(undef) is KLONG_UNDEFINED and nc(None, {X: "undef"}) is KLONG_UNDEFINED)
        if kind == 8:                       # the server redefines name with another arity between two look-ups
            q1 = nc(None, {X: name})
            class _Mon(KGLambda):
                def __init__(self): pass
                def __call__(self, klong, ctx): return ctx[X] + 7
                def get_arity(self): return 1
            table[name] = _Mon()
            q2 = nc(None, {X: name}); q3 = d.get(name)
            return verdict(q1.get_arity() == 2 and q2.get_arity() == 1 and q3.get_arity() == 1
                           and q2(None, {X: a}) == a + 7 and q3(None, {X: b}) == b + 7)
        # a server-side failure reaches the caller as an error, and the next call works
        try:
            d.get(KGSym('absent'))
            return verdict(False)
        except KlongException:
            pass
        return verdict(d.get(val) == b)
    finally:
        _tbm.print_exception = saved_pe
        unpatch()


class _KLoop:
    """the interpreter's own event loop: work handed to it is queued, it runs later (the loop may be busy evaluating)"""
    def __init__(self):
        self.queue = []

    def call_soon_threadsafe(self, fn, *a):
        self.queue.append((fn, a))


class _IOLoop:
    def call_soon_threadsafe(self, fn, *a):
        fn(*a)


def _mk_asyncio(ioloop):
    class _A:
        Future = Fut

        @staticmethod
        def get_event_loop():
            return ioloop

        @staticmethod
        def create_task(coro):
            return coro
    return _A


def on_klongloop(kind: int, a: int, b: int) -> bool:
    """
    pre: 0 <= kind <= 4
    post: _
    """
    # A command received on the IO thread must be EXECUTED on the interpreter's own loop: until that loop picks the work up,
    # the interpreter (its variables, its context stack) is not touched from the IO thread, whatever the command class.
    enter()
    log = []
    sym = KGSym('name')
    table = {sym: b}
    if kind == 0:
        cmd = IPC.KGRemoteDictGetCall(sym); want = b
    elif kind == 1:
        cmd = IPC.KGRemoteDictSetCall(sym, a); want = None
    elif kind == 2:
        table[sym] = _PyFn(log); cmd = IPC.KGRemoteFnCall(sym, [a, b]); want = ('pyfn-result', (a, b))
    elif kind == 3:
        cmd = "1+1"; want = ('evaluated', "1+1")
    else:
        cmd = IPC.KGRemoteDictGetCall(KGSym('absent')); want = None
    klong = FakeKlong(table, log)
    kloop = _KLoop(); ioloop = _IOLoop()
    nc = object()
    patch(asyncio=_mk_asyncio(ioloop))
    import traceback as _tbm
    saved_pe = _tbm.print_exception
    _tbm.print_exception = lambda *a_, **k_: None
    try:
        co = IPC.run_command_on_klongloop(kloop, klong, cmd, nc)
        k, v = step(co)
        if k != 'susp':
            return verdict(False)                   # it must wait for the interpreter loop, not answer by itself
        if log:
            return verdict(False)                   # the interpreter was touched from the IO thread
        if len(kloop.queue) != 1:
            return verdict(False)
        fn, args = kloop.queue[0]
        if len(args) != 1:
            return verdict(False)
        k2, v2 = step(fn(*args))                    # now the interpreter loop runs the command
        if k2 != 'ret':
            return verdict(False)
        k3, v3 = step(co)
        if kind == 4:
            return verdict(k3 == 'exc' and isinstance(v3, KlongException))
        if k3 != 'ret':
            return verdict(False)
        if kind == 1:
            return verdict(v3 is None and table[sym] == a)
        return verdict(v3 == want)
    finally:
        _tbm.print_exception = saved_pe
        unpatch()


# -------------------------------------------------------------------------------- values keep their value AND kind on the wire
def _wire_values():
    from klongpy.core import KGChar, KLONG_UNDEFINED
    import numpy as _np
    return [("str x", "x"), ("char x", KGChar("x")), ("sym x", KGSym("x")), ("str q", "q"), ("char q", KGChar("q")),
            ("int 1", 1), ("real 1.0", 1.0), ("str 1", "1"), ("true", True), ("empty str", ""), ("undefined", KLONG_UNDEFINED),
            ("list", [1, "x", KGChar("x")]), ("dict", {"x": KGChar("x")}), ("array", _np.asarray([1, 2])), ("str long", "x" * 200)]


def _same_kind(a, b):
    import numpy as _np
    from klongpy.core import KLONG_UNDEFINED
    if a is KLONG_UNDEFINED or b is KLONG_UNDEFINED:
        return a is b
    if type(a) is not type(b):
        return False
    if isinstance(a, _np.ndarray):
        return a.dtype == b.dtype and a.shape == b.shape and bool((a == b).all())
    if isinstance(a, list):
        return len(a) == len(b) and all(_same_kind(x, y) for x, y in zip(a, b))
    if isinstance(a, dict):
        return list(a) == list(b) and all(_same_kind(a[k], b[k]) for k in a)
    return a == b


def wire_kinds(n: int, i0: int, i1: int, i2: int) -> bool:
    """
    pre: 1 <= n <= 3
    pre: 0 <= i0 < 15 and 0 <= i1 < 15 and 0 <= i2 < 15
    post: _
    """
    # A sequence of 1..3 messages chosen by the solver from a table of values that are easy to confuse (a one-letter string, the
    # character and the symbol with the same letter, 1 / 1.0 / "1" / true, :undefined ...) goes through the REAL encode_message /
    # decode_message with the REAL pickle, in one process lifetime: every message must come back with its own value and kind,
    # whatever was sent before it.
    enter()
    import uuid as _uuid
    table = _wire_values()
    n = pick([1, 2, 3], n - 1)
    vals = [pick(table, ix)[1] for ix in [i0, i1, i2][:n]]
    ok = True
    with untraced():                              # the chosen messages are concrete values: real pickle at native speed
        import importlib, copy as _copy
        ipc = importlib.import_module("klongpy.sys_fn_ipc")
        # a fresh process lifetime for every path: module-level state of the codec (if any) must not leak between explored paths,
        # otherwise a counterexample would depend on paths explored earlier and could not be replayed
        spec = importlib.util.find_spec("klongpy.sys_fn_ipc")
        ipc = importlib.util.module_from_spec(spec); spec.loader.exec_module(ipc)
        for j, val in enumerate(vals):
            raw = ipc.encode_message(_uuid.UUID(int=j + 1), val)
            mid, got = ipc.decode_message(raw[:16], raw[20:])
            if mid != _uuid.UUID(int=j + 1) or ipc.decode_message_len(raw[16:20]) != len(raw) - 20:
                ok = False
            if not _same_kind(val, got):
                ok = False
    return verdict(ok)


def bounds(tier):
    q = tier == "quick"
    return {"frames": "2 (payload <= 3 bytes each)" if q else "2 (payload <= 6 bytes) and 3 (payload <= 3 bytes)",
            "abstract framing": "%d frames whose body lengths are symbolic integers in [4, 2^32) (the shortest pickle has 4 bytes); symbolic cut; up to 4 symbolic partial-read sizes" % (2 if q else 3),
            "cut point": "any byte position of the stream, or none", "commands": "13 command/interpreter-state classes (incl. KeyError raised inside an evaluated expression / called function), symbolic integer parameters"}


def obligations(tier):
    q = tier == "quick"
    obs = [{"name": "framing 2 frames payload<=3", "fn": "frames", "cfg": {"frames": 2, "maxlen": 3}, "timeout": 300 if q else 900},
           {"name": "framing over abstract lengths: 2 frames, any body length < 2^32, any cut, any partial-read sizes", "fn": "frames_abstract",
            "cfg": {"frames": 2}, "timeout": 300 if q else 900},
           {"name": "server command dispatch", "fn": "dispatch", "cfg": {}, "timeout": 120},
           {"name": "commands run on the interpreter's loop, never on the IO thread", "fn": "on_klongloop", "cfg": {}, "timeout": 120},
           {"name": "remote operation forms (text, symbol+args, proxy, dictionary get/set) equal the local operation", "fn": "remote_forms",
            "cfg": {}, "timeout": 120}]
    obs.append({"name": "message sequences keep value and kind through the real encode/decode (real pickle; easily confused values)",
                "fn": "wire_kinds", "cfg": {}, "timeout": 300})
    if not q:
        obs.append({"name": "framing over abstract lengths: 3 frames", "fn": "frames_abstract", "cfg": {"frames": 3}, "timeout": 1800})
        obs.append({"name": "framing 3 frames payload<=3", "fn": "frames", "cfg": {"frames": 3, "maxlen": 3}, "timeout": 1800})
        obs.append({"name": "framing 2 frames payload<=6", "fn": "frames", "cfg": {"frames": 2, "maxlen": 6}, "timeout": 1800})
    return obs
