"""C04 (claimed in part) - evaluation depends only on program text and variable state; values are immutable.

Real code executed symbolically (program text through the real interpreter): KlongInterpreter.__call__ with its
_parse_cache / _compiled_cache / node._compiled caches, __setitem__/__delitem__, eval_dyad_amend, amend-in-depth, reshape,
join, take/drop/at-index (NumPy views), reverse, dictionary literals (copy_lambda), define, function definition and call.
Oracle: differential - the same statement in a FRESH interpreter loaded with a copy of the pre-state.
"""
from vt.world import enter, verdict, cfg, CFG, pick, cut, untraced
from vt import npworld as W
from klongpy.core import KGSym, KGFn, KLONG_UNDEFINED
import klongpy.interpreter as I

PROPERTY = "C04"
USES_SYMNP = True
A = W.interpreter()
B = W.interpreter()
S = W.interpreter()           # scratch: re-parses function definitions for B (see _load)
FUNCTIONS = ["klongpy.interpreter.KlongInterpreter.__call__", "klongpy.interpreter.KlongInterpreter.__setitem__",
             "klongpy.interpreter.KlongInterpreter.eval", "klongpy.compiler.compile_expr", "klongpy.dyads.eval_dyad_amend",
             "klongpy.dyads.eval_dyad_amend_in_depth", "klongpy.dyads.eval_dyad_reshape", "klongpy.dyads.eval_dyad_join",
             "klongpy.dyads.eval_dyad_drop", "klongpy.dyads.eval_dyad_take", "klongpy.dyads.eval_dyad_at_index",
             "klongpy.monads.eval_monad_reverse", "klongpy.parser.copy_lambda", "klongpy.dyads.eval_dyad_define"]
ASSUMPTIONS = [
    "NumPy = vt.symnp with view semantics for basic slices (conformance-gated; witnesses replayed on real NumPy)",
    "statements come from a closed table; the statement executed at each step and the integer payload are symbolic",
    "aliasing that NumPy could create in ways the model does not reproduce is outside the claim (replay runs on real NumPy)",
]
OUTSIDE = ["torch backend", "tables", "I/O channels", "statements outside the table"]

# statement table: (text, names it may assign)
STMTS = [
    ("a::p,(p+1),p+2", ["a"]),
    ("b::a", ["b"]),
    ("b::a:=9,0", ["b"]),
    ("a:=7,1", []),
    ("c::2#a", ["c"]),
    ("c::c:=5,0", ["c"]),
    ("c::(-2)_a", ["c"]),
    ("b::|a", ["b"]),
    ("m::[2 2]:^a", ["m"]),
    ("m:-p,[0 1]", []),
    ("b::a,p", ["b"]),
    ("b::a@[0 1]", ["b"]),
    ("f::{x+p}", ["f"]),
    ("r::f(2)", ["r"]),
    ("g::{a::x,x}", ["g"]),
    ("g(p)", ["a"]),
    ("r::+/a", ["r"]),
    ("r::a+p", ["r"]),
    ("a::p", ["a"]),
    ("d:::{[1 2]}", ["d"]),
    ("d,7,p", []),               # documented in-place update of the dictionary (visible through aliases); concrete key: keys are hashed
    ("e::d", ["e"]),
    ("r::d?7", ["r"]),
    ("a::[1 2 3]", ["a"]),
    ("b::a:=p,2", ["b"]),
    ("c::1_a", ["c"]),
    ("c::c,p", ["c"]),
    # reshape with a "-1" (half of #b) entry in a shape held by a variable / by a literal inside a function body
    ("s::[-1 2]", ["s"]),
    ("m::s:^a,a", ["m"]),
    ("h::{[-1 2]:^x}", ["h"]),
    ("r::h(a,a)", ["r"]),
    ("r::h(a)", ["r"]),
    # amend-in-depth on a matrix of strings (object rows), result used / discarded
    ("w::[[\"a\" \"b\"] [\"c\" \"d\"]]", ["w"]),
    ("w:-\"r\",[0 1]", []),
    ("v::w:-\"r\",[1 0]", ["v"]),
    # a call that fails part-way (the local a shadows the global a while it runs)
    ("bad::{[a];a::x*2;[1 2]@a}", ["bad"]),
    ("r::bad(p)", ["r"]),
    # module switches: the parser qualifies names while a module is open; the same text may be evaluated repeatedly
    (".module(:mm)", []),
    (".module(0)", []),
    ("u::p", ["u"]),
    # a function whose LOCAL f shadows the global function f while it runs (k is defined in the session prelude); called for its
    # value only - no assignment follows the call - and the global f is applied afterwards
    ("k(p)", []),
    ("f(p)", []),
]
NAMES = ["a", "b", "c", "d", "e", "f", "g", "h", "k", "m", "p", "r", "s", "u", "u`mm", "v", "w", "bad"]


def _copy(v, memo):
    if id(v) in memo:
        return memo[id(v)]
    if isinstance(v, W.NP.ndarray):
        r = v.copy()
        if r.dtype == object:
            flat = [_copy(x, memo) for x in (r._flat() if hasattr(r, "_flat") else r.ravel().tolist())]
            if hasattr(r, "_b"):
                r = W.NP.ndarray(flat, r.shape, "O")
            else:
                import numpy as _np
                rr = _np.empty(len(flat), dtype=object)
                for i, x in enumerate(flat):
                    rr[i] = x
                r = rr.reshape(r.shape)
    elif isinstance(v, dict):
        r = {}
        memo[id(v)] = r
        for k, x in v.items():
            r[k] = _copy(x, memo)
        return r
    elif isinstance(v, list):
        r = [_copy(x, memo) for x in v]
    else:
        r = v                       # numbers, strings, symbols, functions: immutable
    memo[id(v)] = r
    return r


NSYS = len(A._context._context) - 1          # system scopes at the back of the context stack


def _state(k):
    """every user scope of the context stack (outermost first): 'depth:name' -> value, plus the stack shape and the parser's
    module (both are interpreter state that a statement may legitimately change and that the fresh interpreter B receives)"""
    ctx = list(k._context._context)
    user = ctx[:len(ctx) - NSYS][::-1]
    st = {"__scopes__": [("module", str(d.name)) if isinstance(d, I.KGModule) else ("plain", "") for d in user],
          "__module__": None if k._module is None else str(k._module), "__minctx__": k._context._min_ctx_count}
    for i, d in enumerate(user):
        for n in list(d.keys()):
            st["%d:%s" % (i, n)] = d[n]
    return st


def _canon_state(st):
    out = {}
    for n, v in st.items():
        if n.startswith("__"):
            out[n] = v
        else:
            out[n] = ("fn", v.arity) if isinstance(v, KGFn) else W.canon(v)
    # aliasing classes of dictionaries
    groups = []
    for n, v in st.items():
        if isinstance(v, dict) and not n.startswith("__"):
            for g in groups:
                if g[0] is v:
                    g[1].append(n); break
            else:
                groups.append((v, [n]))
    out["__alias__"] = sorted(sorted(g[1]) for g in groups)
    return out


def _fresh_fn(text):
    """a function value built from its source text by a fresh parse: B must not share syntax-tree nodes (and the list
    literals stored inside them) with A, otherwise a literal corrupted in place by A is corrupted for B as well"""
    S._parse_cache.clear(); S._compiled_cache.clear(); S._module = None
    S(text)
    return S._context._context[0][KGSym(text.split("::", 1)[0])]


def _load(k, st, defs=None):
    d = k._context._context
    while len(d) > NSYS:
        d.popleft()
    k._parse_cache.clear(); k._compiled_cache.clear()
    k._module = None if st.get("__module__") is None else KGSym(st["__module__"])
    scopes = st.get("__scopes__", [("plain", "")])
    memo = {}
    for i, (kind, name) in enumerate(scopes):
        sc = I.KGModule(KGSym(name)) if kind == "module" else {}
        pre = "%d:" % i
        for n, v in st.items():
            if n.startswith(pre):
                base = n[len(pre):].split("`")[0]
                if defs and isinstance(v, KGFn) and base in defs:
                    v = _fresh_fn(defs[base])
                sc[KGSym(n[len(pre):])] = _copy(v, memo)
        d.appendleft(sc)
    k._context._min_ctx_count = st.get("__minctx__", NSYS)


def _run(k, text):
    try:
        return ("ok", W.canon(k(text)))
    except Exception as e:
        if type(e).__name__ == "OutsideModel":
            raise
        return ("err", type(e).__name__)


def history(s1: int, s2: int, s3: int, s4: int, p1: int, p2: int) -> bool:
    """
    pre: 0 <= s1 < len(STMTS) and 0 <= s2 < len(STMTS) and 0 <= s3 < len(STMTS) and 0 <= s4 < len(STMTS)
    pre: -100 <= p1 <= 100 and -100 <= p2 <= 100
    post: _
    """
    enter()
    L = CFG["steps"]
    sel = [s1, s2, s3, s4][:L]
    fixed = CFG.get("first")
    if fixed is not None:
        for i, f in enumerate(fixed):
            sel[i] = f
    try:
        with untraced():                          # the prelude is literal text: nothing symbolic in it
            _load(A, {})
            A._context._min_ctx_count = NSYS
            A('a::[1 2 3]'); A('d:::{[1 2]}'); A('f::{x}'); A('k::{[f];f::{x*2};f(x)}')
            defs = {"f": "f::{x}", "k": "k::{[f];f::{x*2};f(x)}"}
            # the session has a history: a module was opened and closed before (its texts are in the parse cache)
            A('.module(:mm)'); A('u::1'); A('.module(0)')
        A['p'] = p1
        for i in range(L):
            text, assigns = pick(STMTS, sel[i])
            if i == L - 1 and p2 != p1:
                A['p'] = p2                       # the payload may change between evaluations of the same text (or not: an
                                                  # assignment between two steps would reset the interpreter's caches every time)
            pre = _state(A)
            pre_c = _canon_state(pre)
            with untraced():                      # copies references only (symbolic payloads are moved, never inspected)
                _load(B, pre, defs)
            rb = _run(B, text)
            ra = _run(A, text)
            if len(text) > 4 and text[1:4] == "::{" and ra[0] == "ok":
                defs[text[0]] = text
            if ra != rb:
                return verdict(False)             # the result depends on something else than text + variables
            post_a = _canon_state(_state(A)); post_b = _canon_state(_state(B))
            if post_a != post_b:
                return verdict(False)
            if not text.startswith(".module") and post_a["__scopes__"] != pre_c["__scopes__"]:
                return verdict(False)             # only a module switch may change the shape of the scope stack (no frame left behind)
            for n, v in pre_c.items():
                if n.startswith("__"):
                    continue
                base = n.split(":", 1)[1].split("`")[0]
                if base in assigns:
                    continue
                if base in ("d", "e") and text.startswith("d,"):
                    continue                      # dictionaries are shared objects updated in place (documented)
                if post_a.get(n) != v:
                    return verdict(False)         # a variable the statement does not assign changed
    except Exception as e:
        if type(e).__name__ == "OutsideModel":
            cut(str(e)[:60]); return True
        raise
    return verdict(True)


def bounds(tier):
    q = tier == "quick"
    return {"steps": 2 if q else 3, "statement table": [s[0] for s in STMTS], "payload": "symbolic integer in +-100, changed before the last step"}


def obligations(tier):
    q = tier == "quick"
    obs = []
    for f in range(len(STMTS)):
        obs.append({"name": "history starting with %s" % STMTS[f][0], "fn": "history", "cfg": {"steps": 2 if q else 3, "first": [f]},
                    "timeout": 300 if q else 1800})
    return obs
