"""C20 (claimed in part) - web routes and websocket messages reach their Klong handler exactly once, intact.

Real code executed symbolically: web.sys_fn_web.eval_sys_fn_create_web_server (both registration loops and the _get/_post
closures), eval_sys_fn_shutdown_web_server, WebServerHandle.shutdown, KGFnWrapper (per-request re-resolution);
ws.sys_fn_ws.NetworkClient._listen, decode_message, encode_message, execute_server_command.
Stand-ins: a recording `web` namespace (Application/router/Response/AppRunner/TCPSite), an immediate loop, request
objects exposing method / rel_url.query / post(), a scripted websocket.
"""
import json
from vt import world as _world
from vt.world import enter, verdict, cfg, CFG, pick, cut
from klongpy import KlongInterpreter
from klongpy.core import KGSym, KGCall, KGLambda
import klongpy.web.sys_fn_web as WEB
import klongpy.ws.sys_fn_ws as WS
from vt.props.ipcstub import Fut, step, NoLog

PROPERTY = "C20"
FUNCTIONS = ["klongpy.web.sys_fn_web.eval_sys_fn_create_web_server", "klongpy.web.sys_fn_web.eval_sys_fn_create_web_server.<locals>._get",
             "klongpy.web.sys_fn_web.eval_sys_fn_create_web_server.<locals>._post", "klongpy.web.sys_fn_web.eval_sys_fn_shutdown_web_server",
             "klongpy.web.sys_fn_web.WebServerHandle.shutdown", "klongpy.types.KGFnWrapper.__call__",
             "klongpy.ws.sys_fn_ws.NetworkClient._listen", "klongpy.ws.sys_fn_ws.decode_message", "klongpy.ws.sys_fn_ws.encode_message",
             "klongpy.ws.sys_fn_ws.execute_server_command"]
ASSUMPTIONS = [
    "aiohttp's web namespace, the event loops and the websocket are recording stand-ins; HTTP parsing, URL/form decoding and the "
    "websocket protocol themselves (aiohttp / websockets / kernel) are outside the claim",
    "handlers are Klong functions that call a recording Python callable (the code itself rejects function *calls* as handlers)",
    "real NumPy backend; symbolic variables: table sizes, requested route, method, which handler raises, redefinition, message order",
]
OUTSIDE = ["HTTP/URL/form parsing", "non-ASCII handling inside aiohttp", "the TCP port after .webc (checked here only as: runner cleaned up)",
           "websocket framing"]

K = _world.hoist(KlongInterpreter())
LOG = []
SEEN = []


def _plain(v):
    import numpy as _np
    from klongpy.core import KLONG_UNDEFINED
    if v is KLONG_UNDEFINED:
        return None                         # a JSON null is delivered as :undefined
    if isinstance(v, _np.ndarray):
        return [_plain(e) for e in v]
    if isinstance(v, _np.generic):
        return v.item()
    if isinstance(v, list):
        return [_plain(e) for e in v]
    if isinstance(v, dict):
        return {kk: _plain(e) for kk, e in v.items()}
    return v


K['wsrec'] = lambda x: SEEN.append(_plain(x)) or len(SEEN)
K('wsm::{x;wsrec(y)}')                      # the websocket handler is a Klong function (so the real KGFnWrapper path runs)


def _rec(x, y):
    LOG.append((x, dict(y) if isinstance(y, dict) else y))
    if x in RAISE:
        raise RuntimeError("handler failed")
    return "resp-%d" % x


RAISE = set()
K['rec'] = _rec


class _Resp:
    def __init__(self, text=None, status=200):
        self.text = text; self.status = status


class _Router:
    def __init__(self):
        self.get = []; self.post = []

    def add_get(self, route, h):
        self.get.append((route, h))

    def add_post(self, route, h):
        self.post.append((route, h))


class _App:
    def __init__(self):
        self.router = _Router()


class _Runner:
    def __init__(self, app):
        self.app = app; self.setup_n = 0; self.cleaned = 0

    async def setup(self):
        self.setup_n += 1

    async def cleanup(self):
        self.cleaned += 1


class _Site:
    sites = []

    def __init__(self, runner, bind, port):
        self.runner = runner; self.bind = bind; self.port = port; self.started = 0
        _Site.sites.append(self)

    async def start(self):
        self.started += 1


class _Web:
    Application = _App
    Response = _Resp
    AppRunner = _Runner
    TCPSite = _Site
    Request = object


class _Task:
    def __init__(self):
        self.cancelled = 0

    def cancel(self):
        self.cancelled += 1


class _Asyncio:
    @staticmethod
    def create_task(coro):
        r = step(coro)
        t = _Task(); t.outcome = r
        return t

    @staticmethod
    def run_coroutine_threadsafe(coro, loop):
        r = step(coro)

        class _H:
            def result(self_, timeout=None):
                if r[0] == 'exc':
                    raise r[1]
                return r[1]
        return _H()


class _Loop:
    def call_soon_threadsafe(self, fn, *a):
        fn(*a)


class _Url:
    def __init__(self, q):
        self.query = q


class _Req:
    """a request carries BOTH a URL query and (for POST) a form body; they are different dictionaries"""
    def __init__(self, method, query, form=None):
        self.method = method; self.rel_url = _Url(query); self._form = {} if form is None else form

    async def post(self):
        return self._form


_saved = {}


def _untraced():
    """context manager: CrossHair's tracer off (symbolic mode) / nothing (real mode)"""
    from vt import world
    if world.MODE == "sym":
        from crosshair.core import NoTracing
        return NoTracing()
    import contextlib
    return contextlib.nullcontext()


def _patch():
    for n, v in (("web", _Web), ("asyncio", _Asyncio), ("logging", NoLog)):
        _saved[n] = getattr(WEB, n); setattr(WEB, n, v)


def _unpatch():
    for n, v in _saved.items():
        setattr(WEB, n, v)
    _saved.clear()


def routes(ng: int, npost: int, r1: int, m1: int, r2: int, m2: int, bad: int, redefine: bool, shared: bool, pb: int) -> bool:
    """
    pre: 0 <= ng <= 3 and 0 <= npost <= 3 and ng == CFG.get('ng', ng) and npost == CFG.get('npost', npost)
    pre: 0 <= r1 <= 2 and 0 <= r2 <= 1
    pre: 0 <= m1 <= 1 and 0 <= m2 <= 1
    pre: -1 <= bad <= 1
    pre: pb == 0
    post: _
    """
    # r2: 0 = the same route again, 1 = the next route;  bad: -1 nobody raises, 0 / 1 = the handler of the first / second request raises
    # ng GET routes /g0.. and npost POST routes /p0.. - or, when `shared`, the SAME paths /r0.. in both tables;
    # route i is handled by handler number i (GET) / 10+i (POST);
    # two requests (route r, method m); handler number `bad` raises; the handler of the first request may be redefined in between
    enter()
    _patch()
    try:
        del LOG[:]; RAISE.clear(); del _Site.sites[:]
        ng = pick([0, 1, 2, 3], ng); npost = pick([0, 1, 2, 3], npost)
        shared = True if shared else False
        gp, pp = ("/r%d", "/r%d") if shared else ("/g%d", "/p%d")
        # The route tables and the server are built from values that are concrete on this path (table sizes and `shared` are
        # decided above), so the real registration code runs here with CrossHair's tracer switched off: same code, same
        # result, native speed.  Everything that depends on a symbolic request (the closures, KGFnWrapper, .webc) runs traced.
        with _untraced():
            ctx = K._context._context
            while len(ctx) > 3:
                ctx.popleft()
            K('get:::{}'); K('post:::{}')
            for i in range(ng):
                K('hg%d::{rec(%d;x)}' % (i, i)); K(('get,"' + gp + '",hg%d') % (i, i))
            for i in range(npost):
                K('hp%d::{rec(%d;x)}' % (i, 10 + i)); K(('post,"' + pp + '",hp%d') % (i, i))
            # entries the server must skip: a dyad and a function call
            K('dy::{x+y}'); K('get,"/dyad",dy')
            K['.system'] = {'ioloop': _Loop()}
            handle = WEB.eval_sys_fn_create_web_server(K, 8080, K('get'), K('post'))
        r2 = r1 if r2 == 0 else (r1 + 1) % 3
        if bad == 0:
            RAISE.add(r1 if m1 == 0 else 10 + r1)
        elif bad == 1:
            RAISE.add(r2 if m2 == 0 else 10 + r2)
        app = _Site.sites[0].runner.app if _Site.sites else None
        if app is None or _Site.sites[0].started != 1 or handle.port != 8080 or handle.bind is not None:
            return verdict(False)
        gets = dict(app.router.get); posts = dict(app.router.post)
        if sorted(gets) != [gp % i for i in range(ng)] or sorted(posts) != [pp % i for i in range(npost)]:
            return verdict(False)                       # exactly the arity-1 handlers are registered (no /dyad)
        params = [{}, {"a": "1"}, {"a": "x y", "b": ""}, {"k": "é\n"}]
        reqs = [(r1, m1, params[(r1 + 2 * m1) % 4]), (r2, m2, params[2])]
        responses = []
        for qi, (r, m, prm) in enumerate(reqs):
            table = gets if m == 0 else posts
            route = (gp if m == 0 else pp) % r
            if route not in table:
                continue                                # unregistered path: nothing to call (the router decides; outside)
            hid = r if m == 0 else 10 + r
            n0 = len(LOG)
            # GET: parameters in the query.  POST: parameters in the form, and ALSO an unrelated query string on the URL
            req = _Req("GET", dict(prm)) if m == 0 else _Req("POST", {"tok": "from-the-url"}, dict(prm))
            kind, resp = step(table[route](req))
            if kind != 'ret':
                return verdict(False)                   # the closure itself never raises
            if any(resp is r0 for r0 in responses):
                return verdict(False)                   # every request gets a response object of its own (an aiohttp
                                                        # Response can be sent once; a shared one answers only the first request)
            responses.append(resp)
            want_tag = hid
            if redefine and qi == 1 and reqs[0][:2] == (r, m):
                want_tag = 100 + hid                    # the redefined handler is the one called now
            if hid in RAISE and not (redefine and qi == 1 and reqs[0][:2] == (r, m)):
                if resp.status != 400 or len(LOG) != n0 + 1:
                    return verdict(False)
            else:
                if len(LOG) != n0 + 1 or LOG[-1][0] != want_tag or LOG[-1][1] != prm:
                    return verdict(False)               # exactly once, by this route's handler, with exactly the parameters
                if resp.status != 200 or resp.text != "resp-%d" % want_tag:
                    return verdict(False)
            if redefine and qi == 0:
                name = ("hg%d" if m == 0 else "hp%d") % r
                K('%s::{rec(%d;x)}' % (name, 100 + hid))
        # a wrong method on a registered closure is answered with 400 and reaches no handler
        if ng > 0:
            n0 = len(LOG)
            kind, resp = step(gets[gp % 0](_Req("POST", {})))
            if kind != 'ret' or resp.status != 400 or len(LOG) != n0 or any(resp is r0 for r0 in responses):
                return verdict(False)
        # .webc stops it, once
        runner = handle.runner
        r = WEB.eval_sys_fn_shutdown_web_server(K, handle)
        r2_ = WEB.eval_sys_fn_shutdown_web_server(K, handle)
        return verdict(r == 1 and r2_ == 0 and runner.cleaned == 1 and handle.runner is None
                       and WEB.eval_sys_fn_shutdown_web_server(K, 5) == 0)
    finally:
        _unpatch()
        K['.system'] = {}


# ------------------------------------------------------------------------------------------------ websocket messages
MSGS = ['1', '"text"', '[1, 2, [3]]', '{"k": [1, "v"], "n": null}', '2.5', 'true',
        '0', '""', '[]', '{}', 'false', '0.0', 'null',
        '"1"', '"null"', '"[1,2]"', '"true"']           # strings whose text is itself JSON stay strings          # every JSON kind, including the values that are falsy in Python


class _Closed(Exception):
    pass


class _WSExc:
    ConnectionClosed = _Closed


class _Websockets:
    exceptions = _WSExc


class _Sock:
    def __init__(self, script, closed=False):
        self.script = list(script); self.sent = []
        # the websockets library still hands out messages that had arrived before the connection reached CLOSED: `closed` may be
        # true while recv() keeps returning queued messages
        self.closed = closed; self.open = not closed

    async def recv(self):
        if not self.script:
            raise _Closed()
        return self.script.pop(0)

    async def send(self, m):
        self.sent.append(m)


def ws_messages(n: int, i0: int, i1: int, i2: int, fail: int, peer_closed: bool) -> bool:
    """
    pre: 0 <= n <= CFG.get('nmax', 3)
    pre: 0 <= i0 < len(MSGS) and 0 <= i1 < len(MSGS) and 0 <= i2 < len(MSGS)
    pre: -1 <= fail <= 2
    post: _
    """
    # n inbound messages in a symbolic order; each is decoded and handed to .ws.m exactly once, in arrival order;
    # on_message hooks may fail (fail = index) without losing the message; the peer may already have closed the connection while
    # its burst is still queued.  All inputs come from finite domains: the solver enumerates them and the listener then runs
    # on concrete messages with the tracer off (same code, native speed).
    enter()
    n = pick([0, 1, 2, 3], n)
    script = [pick(MSGS, i) for i in [i0, i1, i2][:n]]
    fail = pick([-1, 0, 1, 2], fail + 1)
    closed = True if peer_closed else False
    with _untraced():
        ok = _ws_run(n, script, fail, closed)
    return verdict(ok)


def _ws_run(n, script, fail, closed):
    hooks = []
    sock = _Sock(script, closed=closed)                             # closed: the peer sent its burst and closed at once
    saved = {k: getattr(WS, k) for k in ("websockets", "logging", "run_command_on_klongloop")}

    class _L:
        def call_soon_threadsafe(self, fn, *a):
            fn(*a)
    k = K
    del SEEN[:]; seen = SEEN
    k['.ws.m'] = k._context[KGSym('wsm')]

    async def run_cmd(klongloop, klong, sym, command, nc):
        fut = Fut()
        await WS.execute_server_command(_L(), fut, klong, sym, command, nc)
        return fut.result()
    WS.websockets = _Websockets; WS.logging = NoLog; WS.run_command_on_klongloop = run_cmd
    try:
        nc = WS.NetworkClient(None, None, k, None)
        nc.websocket = sock
        depth0 = len(k._context._context)

        async def on_message(c, m):
            hooks.append(m)
            if len(hooks) - 1 == fail:
                raise RuntimeError("hook failed")
        for j in range(n):
            kind, v = step(nc._listen(on_message))
            if kind != 'ret':
                return False
        kind, v = step(nc._listen(on_message))
        if not (kind == 'exc' and isinstance(v, WS.KlongWSConnectionFailureException)):
            return False                                # a closed socket ends the listener with the connection error
        want = [json.loads(s) for s in script]
        ok = seen == want and hooks == want and len(k._context._context) == depth0
        # a value sent through the connection arrives as its JSON encoding
        ok = ok and json.loads(WS.encode_message({"a": [1, 2], "b": "x"})) == {"a": [1, 2], "b": "x"}
        return ok
    finally:
        for kk, vv in saved.items():
            setattr(WS, kk, vv)
        try:
            del k['.ws.m']
        except KeyError:
            pass


def bounds(tier):
    return {"routes": "0..3 GET and 0..3 POST (+ one dyadic handler that must be skipped)", "requests": "2 per run, symbolic route/method/parameters (4 dictionaries)",
            "failing handler": "none or any one of the six", "redefinition": "handler of the first request redefined before the second",
            "websocket": "0..3 inbound messages from 6 JSON kinds in any order, optional failing on_message hook"}


def obligations(tier):
    q = tier == "quick"
    obs = []
    for ng in range(4):
        for npost in range(4):
            obs.append({"name": "http routes, %d GET / %d POST routes" % (ng, npost), "fn": "routes", "cfg": {"ng": ng, "npost": npost},
                        "timeout": 400 if q else 1500})
    obs.append({"name": "websocket messages", "fn": "ws_messages", "cfg": {"nmax": 2 if q else 3}, "timeout": 300 if q else 3000})
    return obs
