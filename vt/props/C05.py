"""C05 - compiled and interpreted execution of an expression are indistinguishable.

Real code executed symbolically: compiler.compile_expr/_ast_to_ir, NumpyBackendProvider.compile_expr_ir/_ir_to_source and
the generated Python source (exec'd against the NumPy model), the three compiled call sites in interpreter.eval/__call__,
and on the other side the tree-walking interpreter (same build, compile_expr replaced by a function returning None).
"""
from typing import List
from vt.world import enter, verdict, cfg, CFG, pick, cut
from vt import npworld as W
from vt import kf
import klongpy.interpreter as I
import klongpy.compiler as C
from klongpy.core import KLONG_UNDEFINED

PROPERTY = "C05"
USES_SYMNP = True
_REAL_COMPILE = I.compile_expr
_NO_COMPILE = lambda ast, klong: None
KC = W.interpreter()      # compiled path enabled
KI = W.interpreter()      # interpreter only
FUNCTIONS = ["klongpy.compiler.compile_expr", "klongpy.compiler._ast_to_ir",
             "klongpy.backends.numpy_backend.NumpyBackendProvider.compile_expr_ir",
             "klongpy.backends.numpy_backend.NumpyBackendProvider._ir_to_source", "<generated _expr source>",
             "klongpy.interpreter.KlongInterpreter.__call__", "klongpy.interpreter.KlongInterpreter.eval"]
ASSUMPTIONS = [
    "NumPy = vt.symnp (conformance-gated; witnesses and counterexamples replayed on real NumPy)",
    "the interpreted side is the same interpreter with klongpy.interpreter.compile_expr returning None",
    "integers are mathematical; reals appear as concrete values only; % and ^ use solver-enumerated small concrete operands",
]
OUTSIDE = ["torch backend", "IEEE reals beyond concrete probes", "expressions deeper than the stated grammar depth"]

ARITH = sorted(C._ARITH_OPS)
CMP = sorted(C._CMP_OPS)
RED = sorted(C._REDUCE_SCAN_OPS)
LIN = [o for o in ARITH if o in ("+", "-", "*")]          # stay symbolic
NONLIN = [o for o in ARITH if o not in ("+", "-", "*")]    # % ^: concrete operands


def programs(depth):
    P = []
    for o in ARITH + CMP:
        P += ["a%sb" % o, "a%s2" % o, "3%sa" % o]
    P += ["-a"]
    for o in RED:
        P += ["%s/a" % o]
    for o in RED:
        P += ["%s\\a" % o]
    if depth >= 2:
        for o1 in LIN + CMP:
            for o2 in LIN + CMP + ["%"]:
                P += ["(a%sb)%sa" % (o1, o2), "a%s(b%sa)" % (o2, o1)]
            P += ["-(a%sb)" % o1]
            for r in RED:
                P += ["%s/a%sb" % (r, o1), "(%s/a)%sb" % (r, o1)]
            for r in ("+", "*"):
                P += ["%s\\a%sb" % (r, o1)]
        P += ["(a^2)+b", "(a%2)-b", "+/a*a", "(+/a)%#a", "b%+/a", "3%(*/a)", "(+/a)%(|/a)"]
    if depth >= 3:
        for o1 in LIN:
            for o2 in LIN + CMP:
                for o3 in LIN:
                    P += ["((a%sb)%sa)%sb" % (o1, o2, o3), "+/(a%sb)%s(b%sa)" % (o1, o2, o3)]
    seen = []
    for p in P:
        if p not in seen:
            seen.append(p)
    return seen


def _run(k, compiled, text):
    I.compile_expr = _REAL_COMPILE if compiled else _NO_COMPILE
    try:
        r = k(text)
        return ("ok", W.canon(r))
    except Exception as e:
        if type(e).__name__ == "OutsideModel":
            raise
        return ("err", None)
    finally:
        I.compile_expr = _REAL_COMPILE


def _reset(k):
    k._parse_cache.clear(); k._compiled_cache.clear()


def _position(form, text):
    """(definition or None, program) placing the expression in one of the evaluation positions the property names"""
    if form == "top":
        return None, text
    if form in ("fn", "assign"):
        return "f::{%s}" % text, "f()"                       # the whole function body
    if form == "opnd":
        return "f::{0,(%s)}" % text, "f()"                   # operand of a non-compilable verb: the node survives between calls
    if form == "param":
        body = text.replace("a", "x").replace("b", "y")
        return "f::{0,(%s)}" % body, "f(a;b)"                # over lambda parameters
    raise RuntimeError(form)


def _mk(kind, v, s, t):
    """value of a binding kind from the symbolic pool: v vector, s/t scalars"""
    if kind == "i":
        return s
    if kind == "j":
        return t
    if kind == "v":
        return W.arr(list(v))
    if kind == "w":
        return W.arr([x + t for x in v])
    if kind == "m":
        return W.arr([list(v), [x + 1 for x in v]])
    if kind == "f":
        return 1.5
    if kind == "g":
        return 4.0
    if kind == "fv":
        return W.arr([1.5, 2.0, -0.5])
    if kind == "e":
        return W.arr([])
    if kind == "nest":
        return W.arr([s, [t, s]])
    if kind == "str":
        return "ab"
    if kind == "4":
        return 4
    if kind == "iv":
        return W.arr([4, 9, 2])
    raise RuntimeError(kind)


def _concretize(text, v, s, t, kinds):
    """operands that go through real arithmetic (% and ^, or next to a real binding) come from a small concrete domain;
    only the pool variables the binding kinds actually use are touched"""
    real = "%" in text or "^" in text or any(k in ("f", "g", "fv") for k in kinds)
    if not real:
        return v, s, t
    D = [-2, 0, 1, 4]              # 0 included: a zero divisor / zero base is where the two paths are most likely to part
    use_v = any(k in ("v", "w", "m") for k in kinds)
    use_s = any(k in ("i", "nest") for k in kinds)
    use_t = any(k in ("j", "w", "nest") for k in kinds)
    v = [pick(D, x % 4) for x in v] if use_v else [1 for _ in v]
    s = pick(D, s % 4) if use_s else 1
    t = pick(D, t % 4) if use_t else 1
    return v, s, t


def equiv(v: List[int], s: int, t: int, pi: int) -> bool:
    """
    pre: 1 <= len(v) <= CFG['n']
    pre: 0 <= pi < len(CFG['progs'])
    post: _
    """
    # one program text (solver-chosen from the group), one binding of a and b; compiled and interpreted runs must agree in
    # value, structure, kind and failure
    enter()
    text = pick(CFG["progs"], pi); ka, kb = CFG["a"], CFG["b"]
    if ka in ("m",) and len(v) != 2:
        return True
    v = list(v)
    v, s, t = _concretize(text, v, s, t, (ka, kb))
    if "*" in text:
        for x in v + [s, t]:
            if x < -30 or x > 30:
                return True
    try:
        for k in (KC, KI):
            _reset(k)
            k['a'] = _mk(ka, v, s, t)
            k['b'] = _mk(kb, v, s, t)
        d, prog = _position(CFG.get("form", "top"), text)
        if d is not None:
            _run(KC, True, d); _run(KI, False, d)
        rc = _run(KC, True, prog)
        ri = _run(KI, False, prog)
        # a second evaluation of the same text (warm caches) must not differ either
        rc2 = _run(KC, True, prog)
    except Exception as e:
        if type(e).__name__ == "OutsideModel":
            cut(str(e)[:60]); return True
        raise
    return verdict(rc == ri and rc2 == ri)


def rebinding(v: List[int], s: int, t: int, pi: int) -> bool:
    """
    pre: 1 <= len(v) <= CFG['n']
    pre: 0 <= pi < len(CFG['progs'])
    post: _
    """
    # bind, evaluate, rebind a to a value of another kind/shape, evaluate the SAME text again (same parsed node, same caches)
    enter()
    text = pick(CFG["progs"], pi); k1, k2, kb = CFG["a1"], CFG["a2"], CFG["b"]
    form = CFG.get("form", "top")        # top: klong(text)   fn: inside a function body   setitem: rebinding through klong[name]=
    v = list(v)
    v, s, t = _concretize(text, v, s, t, (k1, k2, kb))
    if ("m" in (k1, k2)) and len(v) != 2:
        return True
    if "*" in text:
        for x in v + [s, t]:
            if x < -30 or x > 30:
                return True
    out = {}
    try:
        for k, comp in ((KC, True), (KI, False)):
            _reset(k)
            k['b'] = _mk(kb, v, s, t)
            k['a'] = _mk(k1, v, s, t)
            d, prog = _position(form, text)
            if d is not None:
                _run(k, comp, d)
            r1 = _run(k, comp, prog)
            if form == "assign":
                k['tmp'] = _mk(k2, v, s, t)
                _run(k, comp, "a::tmp")
            else:
                k['a'] = _mk(k2, v, s, t)
            r2 = _run(k, comp, prog)
            out[comp] = (r1, r2)
    except Exception as e:
        if type(e).__name__ == "OutsideModel":
            cut(str(e)[:60]); return True
        raise
    return verdict(out[True] == out[False])


# known disagreement classes on the pinned tree (open findings are cut from the search, re-checked concretely)
def _excluded(text, ka, kb):
    return False


BINDINGS_Q = [("g", "j"), ("i", "j"), ("v", "j"), ("v", "w"), ("i", "w"), ("m", "j"), ("f", "j"), ("fv", "j"), ("e", "j"), ("nest", "j"), ("str", "j")]


def bounds(tier):
    q = tier == "quick"
    return {"grammar depth": 2 if q else 3, "programs": len(programs(2 if q else 3)),
            "bindings": "int scalars, int vectors (len <= %d), 2x2 matrix, real scalar/vector, [], nested list, string" % (2 if q else 3),
            "rebinding histories": "bind, evaluate, rebind to another kind, evaluate the same text (top level, function body, :: assignment)"}


def _chunks(lst, n):
    return [lst[i:i + n] for i in range(0, len(lst), n)]


def obligations(tier):
    q = tier == "quick"
    n = 2 if q else 3
    obs = []
    progs = programs(2 if q else 3)
    for (ka, kb) in BINDINGS_Q:
        sel = []
        for p in progs:
            if q and len(p) > 5 and (ka, kb) not in (("i", "j"), ("v", "j"), ("v", "w"), ("m", "j"), ("e", "j")):
                continue
            if kf.is_open("C05/" + finding_class(p, ka, kb)):
                continue
            sel.append(p)
        for gi, grp in enumerate(_chunks(sel, 12 if q else 8)):
            obs.append({"name": "equiv a=%s b=%s group %d (%s ... %s)" % (ka, kb, gi, grp[0], grp[-1]), "fn": "equiv",
                        "cfg": {"progs": grp, "a": ka, "b": kb, "n": n}, "timeout": 300 if q else 1500})
    # evaluation positions other than the top level (function body operand, lambda parameters)
    pp = ["a+b", "a%b", "a^2", "+/a", "+\\a", "*/a", "(+/a)%#a", "b%+/a", "-a", "a=b"] if q else progs
    for (ka, kb) in [("i", "j"), ("v", "j"), ("m", "j"), ("e", "j"), ("g", "j"), ("fv", "j")]:
        for form in ("opnd", "param"):
            for gi, grp in enumerate(_chunks(pp, 10)):
                obs.append({"name": "equiv position=%s a=%s b=%s group %d" % (form, ka, kb, gi), "fn": "equiv",
                            "cfg": {"progs": grp, "a": ka, "b": kb, "n": n, "form": form}, "timeout": 300 if q else 1500})
    hist = [("i", "v"), ("v", "i"), ("v", "m"), ("i", "f"), ("v", "str"), ("v", "e"), ("i", "nest"), ("m", "v"), ("f", "i")]
    hp = ["a+b", "a*2", "a=b", "-a", "+/a", "*\\a", "+\\a", "|/a", "(a+b)*a", "+/a*b"] if q else progs[:60]
    for (k1, k2) in hist:
        for form in (("top", "fn", "opnd", "param") if q else ("top", "fn", "assign", "opnd", "param")):
            sel = [p for p in hp if not (kf.is_open("C05/" + finding_class(p, k1, "j")) or kf.is_open("C05/" + finding_class(p, k2, "j")))]
            for gi, grp in enumerate(_chunks(sel, 9)):
                obs.append({"name": "rebinding a:%s->%s %s group %d" % (k1, k2, form, gi), "fn": "rebinding",
                            "cfg": {"progs": grp, "a1": k1, "a2": k2, "b": "j", "n": n, "form": form}, "timeout": 300 if q else 1500})
    return obs


def extra_obligations(tier):
    """concrete companion sweep over NumPy-scalar bindings on the real NumPy (the model has no NumPy scalars, DESIGN 12.4);
    reported separately: it is NOT a solver verdict"""
    import subprocess, sys, json, os
    root = os.path.dirname(os.path.dirname(os.path.dirname(os.path.abspath(__file__))))
    try:
        p = subprocess.run([sys.executable, "-W", "ignore", "-m", "vt.npscalars", "1" if tier == "quick" else "2"], capture_output=True, text=True,
                           cwd=root, timeout=1800, env={**os.environ, "VT_MODE": "real"})
        r = json.loads(p.stdout.strip().splitlines()[-1])
    except Exception as e:
        return [{"name": "numpy-scalar bindings (concrete sweep, real NumPy)", "status": "inconclusive", "why": "sweep failed: %r" % (e,)}]
    name = "numpy-scalar bindings: %d (program, binding) cases compiled vs interpreted on real NumPy (concrete sweep, not a solver verdict)" % r["cases"]
    if r["n_disagree"] == 0:
        return [{"name": name, "status": "confirmed", "cases": r["cases"]}]
    gen = os.path.join(root, ".gen", "replays"); os.makedirs(gen, exist_ok=True)
    path = os.path.join(gen, "C05-npscalars.json")
    json.dump(r, open(path, "w"), indent=1)
    c = r["disagree"][0]
    return [{"name": name, "status": "violated", "call": "%s with a=%s b=%s" % (c["prog"], c["a"], c["b"]),
             "message": "compiled %s vs interpreted %s" % (c["compiled"], c["interpreted"]), "replay": path,
             "real": "compiled %s vs interpreted %s" % (c["compiled"], c["interpreted"])}]


def finding_class(prog, ka, kb):
    """(IR node kind, binding kind) key used by known findings"""
    node = "scan" if "\\" in prog else "reduce" if "/" in prog else "power" if "^" in prog else "divide" if "%" in prog else \
        "cmp" if any(c in prog for c in "<>=") else "arith"
    return "%s/%s" % (node, ka)
