"""C07 - gradient and Jacobian computation is observationally pure (NumPy backend).

Real code executed under the solver: dyads.eval_dyad_grad / eval_dyad_autograd / eval_dyad_jacobian, autograd.grad_of_fn,
multi_grad_of_fn (call_fn_with_tensors), jacobian_of_fn, multi_jacobian_of_fn (single_param_fn), numeric_grad,
numeric_jacobian, interpreter __setitem__ - with REAL NumPy (the symbolic variables never reach an array: they choose
which evaluation of the loss fails, how it fails, the operator form and the parameter kind).
"""
from vt import world as _world
from vt.world import enter, verdict, cfg, CFG, pick, cut
from klongpy import KlongInterpreter
from klongpy.core import KGSym
import numpy as np

PROPERTY = "C07"
FUNCTIONS = ["klongpy.dyads.eval_dyad_grad", "klongpy.dyads.eval_dyad_autograd", "klongpy.dyads.eval_dyad_jacobian",
             "klongpy.autograd.numeric_grad", "klongpy.autograd.numeric_jacobian", "klongpy.autograd.grad_of_fn",
             "klongpy.autograd.multi_grad_of_fn", "klongpy.autograd.jacobian_of_fn", "klongpy.autograd.multi_jacobian_of_fn",
             "klongpy.autograd._invoke_fn", "klongpy.autograd._scalar_value"]
ASSUMPTIONS = [
    "NumPy backend (numeric differentiation); real NumPy, no model",
    "the failing evaluation is produced by a Python callable inside the loss that misbehaves on its k-th call: raises, returns a "
    "non-scalar, or removes a name the loss refers to",
    "snapshot = value + Python type + dtype of every user variable, and the value of f() at the point",
]
OUTSIDE = ["torch autograd (C++) and gradient-tracking tensors", "numeric accuracy of the gradient (C06)"]

K = _world.hoist(KlongInterpreter())
_S = {"n": 0, "at": -1, "mode": 0}


class Boom(Exception):
    pass


def _fl(x):
    """identity on its argument; misbehaves on the k-th call"""
    _S["n"] += 1
    if _S["n"] == _S["at"]:
        if _S["mode"] == 0:
            raise Boom()
        if _S["mode"] == 1:
            return np.asarray([x, x], dtype=object) if np.ndim(x) else np.asarray([x, x])
        if _S["mode"] == 2:
            try:
                del K['cc']                  # the loss refers to cc: from now on it is an unknown name
            except KeyError:
                pass
    return x


K['fl'] = _fl

# parameter kinds
def _param(kind):
    if kind == 0:
        return 1.5                                           # Python float
    if kind == 1:
        return np.asarray([1.0, 2.0, 3.0])                   # float64 array (asarray would not copy)
    if kind == 2:
        return np.asarray([1, 2, 3])                         # int array
    if kind == 3:
        return np.asarray([[1.0, 2.0], [3.0, 4.0]])          # float64 matrix
    return 2                                                 # Python int


def _val(x):
    return ("array", x.tolist()) if isinstance(x, np.ndarray) else (type(x).__name__, float(x)) if isinstance(x, (int, float, np.floating, np.integer)) else (type(x).__name__,)


def _snap():
    out = {}
    for k, v in K._context._context[0].items():
        name = str(k)
        if name in ("fl",):
            continue
        if isinstance(v, np.ndarray):
            out[name] = ("array", str(v.dtype), v.shape, v.tolist())
        else:
            out[name] = (type(v).__name__, v if isinstance(v, (int, float, str)) else id(v))     # no repr() under tracing
    return out


FORMS = ["f:>a", "a∇f", ":a∇fa", "loss:>[a b]", "a∂g", "[a b]∂h", ".jacobian(g;a)",
         # a parameter named twice; functions whose value IS a stored global array (by reference / as a view of it)
         "loss:>[a a]", "loss:>[b a a]", "a∂gr", ".jacobian(gv;a)", "[a]∂hr"]
TWO_PARAM = (3, 5, 8)         # forms that differentiate with respect to a and b


def purity(form: int, kind: int, kind2: int, k: int, mode: int) -> bool:
    """
    pre: 0 <= form <= 11 and form == CFG.get('form', form)
    pre: 0 <= kind <= 4 and 0 <= kind2 <= 4 and kind == CFG.get('kind', kind)
    pre: kind2 == 0 or ((form == 3 or form == 5 or form == 8) and (kind2 == 1 or kind2 == 3 or CFG.get('allkinds')))
    pre: 0 <= k <= CFG.get('kmax', 20)
    pre: 0 <= mode <= 2
    post: _
    """
    # k == 0: no evaluation misbehaves.  Whatever happens, afterwards every variable has the value and kind it had before.
    enter()
    # every input comes from a finite domain: the solver enumerates (form, kinds, ordinal of the misbehaving evaluation, failure
    # kind); each element then runs on real NumPy with the tracer off (nothing symbolic reaches the arrays anyway)
    kind = pick([0, 1, 2, 3, 4], kind); kind2 = pick([0, 1, 2, 3, 4], kind2)
    k = pick(list(range(21)), k); mode = pick([0, 1, 2], mode); form = pick(list(range(len(FORMS))), form)
    with _world.untraced():
        ok = _purity(form, kind, kind2, k, mode)
    return verdict(ok)


def _purity(form, kind, kind2, k, mode):
    ctx = K._context._context
    while len(ctx) > 3:
        ctx.popleft()
    for name in list(ctx[0].keys()):
        if str(name) != "fl":
            del ctx[0][name]
    pa = _param(kind); pb = _param(kind2)
    K['a'] = pa; K['b'] = pb
    K['cc'] = 0.5; K['other'] = np.asarray([9.0, 8.0])
    K('f::{(+/,/fl(x)*x)+cc}')                      # scalar-valued, monadic
    K('loss::{(+/,/fl(a)*a)+(+/,/b*b)+cc}')         # niladic, refers to a and b
    K('g::{(fl(x)*x)+cc}')                          # vector-valued
    K('h::{((+/,/fl(a)*a)+cc),(+/,/b)}')            # niladic, vector-valued
    K('fa::{(+/,/fl(a)*a)+cc}')                     # reads the GLOBAL a: the symbol-point form :a∇fa rebinds a for every probe
    K('gr::{fl(x);other}')                          # the value is the stored global array `other` itself
    K('gv::{fl(x);1_other3}')                       # ... a view of a stored global array
    K('hr::{fl(a);other}')
    K['other3'] = np.asarray([7.0, 6.0, 5.0])
    text = FORMS[form]
    before = _snap()
    f_before = None
    _S["n"] = 0; _S["at"] = -1
    try:
        f_before = _val(K('f(a)'))
    except Exception:
        f_before = "err"
    _S["n"] = 0; _S["at"] = k if k > 0 else -1; _S["mode"] = mode
    try:
        K(text)
    except Exception:
        pass                                         # failing is allowed; leaving traces is not
    _S["at"] = -1
    # restore what the scripted misbehaviour itself removed (that deletion is the environment's doing, not the operator's)
    if 'cc' not in [str(x) for x in ctx[0].keys()]:
        K['cc'] = 0.5
    after = _snap()
    if len(ctx) != 3:
        return False
    if after != before:
        return False
    try:
        f_after = _val(K('f(a)'))
    except Exception:
        f_after = "err"
    return f_after == f_before


def bounds(tier):
    return {"forms": FORMS, "parameter kinds": ["float", "float64 vector", "int vector", "float64 2x2 matrix", "int"],
            "failing evaluation": "k-th evaluation of the loss, k in 0 (never) .. 20 (forms perform at most 2*4+1 evaluations per parameter)",
            "failure kinds": ["raises", "returns a non-scalar", "removes a name the loss refers to"]}


def obligations(tier):
    q = tier == "quick"
    obs = []
    for form in range(len(FORMS)):
        if form in TWO_PARAM:       # two parameters: split by the kind of the first one
            for kind in range(5):
                obs.append({"name": "purity form=%s first parameter kind %d" % (FORMS[form], kind), "fn": "purity",
                            "cfg": {"form": form, "kind": kind, "kmax": 20, "allkinds": True}, "timeout": 600 if q else 1500})
        else:
            obs.append({"name": "purity form=%s" % FORMS[form], "fn": "purity", "cfg": {"form": form, "kmax": 20},
                        "timeout": 400 if q else 1500})
    return obs
