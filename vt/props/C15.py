"""C15 - timers tick once per interval until stopped, and stop for good.

Real code executed symbolically: klongpy.sys_fn_timer._call_periodic (incl. the `run` closure),
KGTimerHandler.cancel, eval_sys_fn_cancel_timer, eval_sys_fn_timer (validation + KGFnWrapper re-resolution
through a real interpreter).  Stand-in: a virtual-time event loop on an integer time grid.
"""
import os, re, subprocess, tempfile, time
from vt.world import enter, verdict, cfg, MODE, CFG
from vt import kf

import klongpy.sys_fn_timer as T
from klongpy.sys_fn_timer import _call_periodic, eval_sys_fn_cancel_timer, eval_sys_fn_timer, KGTimerHandler

PROPERTY = "C15"
FUNCTIONS = ["klongpy.sys_fn_timer._call_periodic", "klongpy.sys_fn_timer._call_periodic.<locals>.run",
             "klongpy.sys_fn_timer.KGTimerHandler.cancel", "klongpy.sys_fn_timer.eval_sys_fn_cancel_timer",
             "klongpy.sys_fn_timer.eval_sys_fn_timer", "klongpy.core.KGFnWrapper.__call__"]
ASSUMPTIONS = [
    "event loop = virtual-time stand-in (time/call_at/call_later/call_soon, cancellable handles); time is an integer grid",
    "the loop runs a handle at or after its deadline (family 'late'), or up to one grid unit before it (family 'early', "
    "asyncio runs handles whose deadline is < time()+clock_resolution)",
    "float rounding of interval-((now-start)%interval) is covered only by the separate QF_FP lemma (cvc5), for intervals 1,2,5 and times <= 2^20 s",
    "CrossHair tuning: format()/callable() of symbolic numbers do not realise them",
    "callbacks that raise are outside the claim",
]
OUTSIDE = ["real asyncio loop timing", "callbacks that raise", "whether now+delay lands one ulp before the true boundary"]


class H:
    def __init__(self, when, cb, args):
        self.when = when; self.cb = cb; self.args = args; self.cancelled = False; self.fired = False

    def cancel(self):
        self.cancelled = True


class Loop:
    """virtual-time loop; `early` = how far before its deadline a handle may be dispatched (clock resolution)"""
    def __init__(self, t0, early=0):
        self.now = t0; self.q = []; self.early = early

    def time(self):
        return self.now

    def call_at(self, when, cb, *args):
        h = H(when, cb, args); self.q.append(h); return h

    def call_later(self, d, cb, *args):
        h = H(self.now + d, cb, args); self.q.append(h); return h

    def call_soon(self, cb, *args):
        h = H(self.now, cb, args); self.q.append(h); return h

    def live(self):
        return [h for h in self.q if not h.cancelled and not h.fired]

    def run_next(self, late, use_early=False):
        live = self.live()
        if not live:
            return None
        h = live[0]
        for o in live[1:]:
            if o.when < h.when:
                h = o
        t = h.when - (self.early if use_early else 0)
        if t < self.now:
            t = self.now
        self.now = t + late
        h.fired = True
        h.cb(*h.args)
        return h


# ------------------------------------------------------------------------------------------ tick placement
def placement(start: int, l0: int, l1: int, l2: int, l3: int, l4: int,
              d0: int, d1: int, d2: int, d3: int, d4: int) -> bool:
    """
    pre: 0 <= start <= 1000000
    pre: 0 <= l0 <= 20000 and 0 <= l1 <= 20000 and 0 <= l2 <= 20000 and 0 <= l3 <= 20000 and 0 <= l4 <= 20000
    pre: 0 <= d0 <= 20000 and 0 <= d1 <= 20000 and 0 <= d2 <= 20000 and 0 <= d3 <= 20000 and 0 <= d4 <= 20000
    post: _
    """
    # interval is concrete per obligation (the repaired code multiplies and divides by it: symbolic x symbolic is out of reach)
    enter()
    K = cfg("ticks", 3); interval = cfg("interval", 1)
    lates = [l0, l1, l2, l3, l4][:K]; durs = [d0, d1, d2, d3, d4][:K]
    loop = Loop(start)
    ticks = []          # (deadline the handle was scheduled for, time of invocation, time the callback ended)

    def cb():
        i = len(ticks)
        t = loop.now
        loop.now = loop.now + durs[i]
        ticks.append(t)
        return 1
    h = _call_periodic(loop, "t", interval, cb)
    ok = True
    prev_end = None; prev_when = None
    for i in range(K):
        live = loop.live()
        # exactly one armed handle, and the timer handle points at it
        if len(live) != 1 or h.delegate is not live[0]:
            return verdict(False)
        when = live[0].when
        if i == 0:
            ok = ok and when == start + interval
        else:
            # first boundary strictly after the end of the previous callback; boundaries never repeat
            ok = ok and when > prev_end and when - prev_end <= interval and when > prev_when
        ok = ok and (when - start) % interval == 0
        loop.run_next(lates[i])
        ok = ok and len(ticks) == i + 1 and ticks[i] >= when      # one invocation, not before the boundary
        prev_end = loop.now; prev_when = when
    return verdict(ok)


def placement_early(start: int, e0: int, e1: int, e2: int, l0: int, l1: int, l2: int,
                    d0: int, d1: int, d2: int) -> bool:
    """
    pre: 0 <= start <= 1000000
    pre: 0 <= e0 <= 1 and 0 <= e1 <= 1 and 0 <= e2 <= 1
    pre: 0 <= l0 <= 20000 and 0 <= l1 <= 20000 and 0 <= l2 <= 20000
    pre: 0 <= d0 <= 20000 and 0 <= d1 <= 20000 and 0 <= d2 <= 20000
    post: _
    """
    # dispatch up to one grid unit (the clock resolution) BEFORE the deadline: the same boundary must not be served twice
    enter()
    K = cfg("ticks", 3); interval = cfg("interval", 2)
    earl = [e0, e1, e2][:K]; lates = [l0, l1, l2][:K]; durs = [d0, d1, d2][:K]
    loop = Loop(start, early=1)
    ticks = []

    def cb():
        i = len(ticks)
        ticks.append(loop.now)
        loop.now = loop.now + durs[i]
        return 1
    h = _call_periodic(loop, "t", interval, cb)
    ok = True
    prev_when = None
    for i in range(K):
        live = loop.live()
        if len(live) != 1 or h.delegate is not live[0]:
            return verdict(False)
        when = live[0].when
        # every deadline is an exact boundary, and boundaries never repeat even when dispatch was early
        ok = ok and (when - start) % interval == 0 and when >= start + interval
        if prev_when is not None:
            ok = ok and when > prev_when and when > prev_end and when - prev_end <= interval + 1
        if earl[i] == 1 and lates[i] == 0:
            loop.run_next(0, use_early=True)
        else:
            loop.run_next(lates[i])
        ok = ok and len(ticks) == i + 1 and ticks[i] >= when - 1
        prev_when = when; prev_end = loop.now
    return verdict(ok)


# ------------------------------------------------------------------------------------------ stop for good / .timerc
CONT, STOP, CANCEL_TRUE, CANCEL_FALSE, CANCEL_OTHER = 0, 1, 2, 3, 4


def stopping(a0: int, a1: int, a2: int, a3: int, l0: int, l1: int, l2: int, l3: int,
             ext: int) -> bool:
    """
    pre: 0 <= a0 <= 4 and 0 <= a1 <= 4 and 0 <= a2 <= 4 and 0 <= a3 <= 4
    pre: 0 <= l0 <= CFG.get('maxlate', 12) and 0 <= l1 <= CFG.get('maxlate', 12) and 0 <= l2 <= CFG.get('maxlate', 12) and 0 <= l3 <= CFG.get('maxlate', 12)
    pre: 0 <= ext <= 6
    post: _
    """
    # two timers A (scripted) and B (always continues); `ext`: external .timerc(A) after that many dispatches (>= K: never)
    enter()
    K = cfg("ticks", 3); interval = cfg("interval", 1); interval2 = cfg("interval2", 2)
    acts = [a0, a1, a2, a3][:K]; lates = [l0, l1, l2, l3][:K]
    loop = Loop(0)
    log = []                      # 'A' / 'B' per invocation
    alive = {"A": True, "B": True}
    bad = []

    def timerc(which, handle):
        r = eval_sys_fn_cancel_timer(handle)
        if (r == 1) != alive[which]:       # 1 exactly when it stopped a live timer
            bad.append(("timerc", which, r))
        if r != 0 and r != 1:
            bad.append(("timerc-value", r))
        alive[which] = False

    def cbA():
        if not alive["A"]:
            bad.append("tick after stop A")
        i = sum(1 for x in log if x == "A")
        log.append("A")
        act = acts[i] if i < len(acts) else CONT
        if act == STOP:
            alive["A"] = False
            return 0
        if act == CANCEL_TRUE:
            timerc("A", hA); return 1
        if act == CANCEL_FALSE:
            timerc("A", hA); return 0
        if act == CANCEL_OTHER:
            timerc("B", hB); return 1
        return 1

    def cbB():
        if not alive["B"]:
            bad.append("tick after stop B")
        log.append("B")
        return 1
    hA = _call_periodic(loop, "A", interval, cbA)
    hB = _call_periodic(loop, "B", interval2, cbB)
    n = 0
    for i in range(2 * K + 2):
        if n == ext:
            timerc("A", hA)
        n += 1
        if loop.run_next(lates[i] if i < K else 0) is None:
            break
    # a stopped timer has nothing armed; a live timer has exactly one armed handle
    for which, h in (("A", hA), ("B", hB)):
        armed = [x for x in loop.live() if x.args and x.args[0] is h]
        if alive[which]:
            if len(armed) != 1:
                bad.append(("armed", which, len(armed)))
        elif armed:
            bad.append(("armed after stop", which))
    # a second cancel always reports 0
    timerc("A", hA); timerc("A", hA)
    if eval_sys_fn_cancel_timer("not a timer") != 0:
        bad.append("timerc on non-handle")
    return verdict(not bad)


# ------------------------------------------------------------------------------------------ .timer API + re-resolution
from klongpy import KlongInterpreter
_K = KlongInterpreter()      # built once, outside tracing (construction under tracing costs ~0.5 s per path)
_SEEN = []
_K['rec'] = lambda x: _SEEN.append(x) or 1


def _interp():
    return _K


def api(y: int, kind: int, redefine_at: int, stop_at: int) -> bool:
    """
    pre: -3 <= y <= 6
    pre: 0 <= kind <= 4
    pre: 0 <= redefine_at <= 4 and 0 <= stop_at <= 4
    post: _
    """
    # kind: 0 named Klong function, 1 Python callable, 2 a function *call* (rejected), 3 a number (rejected),
    #       4 named Klong function whose name is deleted before dispatch `redefine_at` (falls back to the original).
    #       The named function `cb` is redefined before dispatch number `redefine_at`.
    enter()
    from klongpy.core import KGCall, KGFn, KGSym, KGLambda
    klong = _interp()
    loop = Loop(0)
    klong['.system'] = {'klongloop': loop}
    seen = _SEEN
    del seen[:]
    try:
        klong('cb::{rec(1)}')
        if kind == 0:
            z = klong._context[KGSym('cb')]
        elif kind == 1:
            z = lambda: seen.append(7) or 1
        elif kind == 2:
            z = KGCall(klong._context[KGSym('cb')].a, [], 0)
        elif kind == 3:
            z = 5
        else:
            klong('cb4::{rec(4)}')
            z = klong._context[KGSym('cb4')]
        r = eval_sys_fn_timer(klong, "nm", y, z)
        if y < 0 or kind in (2, 3):
            return verdict(isinstance(r, str) and not loop.q)       # rejected, nothing scheduled
        if not isinstance(r, KGTimerHandler) or r.name != "nm" or r.interval != y:
            return verdict(False)
        expect = []
        tag = {0: 1, 1: 7, 4: 4}[kind]
        for i in range(5):
            if i == redefine_at:
                klong('cb::{rec(2)}')
                if kind == 4:
                    try:
                        del klong['cb4']        # name deleted: the wrapper falls back to the function it was given
                    except KeyError:
                        pass
                if kind == 0:
                    tag = 2
            if i == stop_at:
                klong('cb::{rec(3);0}')
                if kind == 0:
                    tag = 3
            if loop.run_next(0) is None:
                break
            expect.append(tag)
            if kind == 0 and tag == 3:
                # callback returned 0: the timer is finished
                if loop.live():
                    return verdict(False)
        return verdict(seen == expect)
    finally:
        klong['.system'] = {}


# ------------------------------------------------------------------------------------------ QF_FP lemma (cvc5)
_FP_TMPL = """(set-logic QF_FP)
(declare-const s (_ FloatingPoint 11 53))
(declare-const t (_ FloatingPoint 11 53))
(define-fun I () (_ FloatingPoint 11 53) ((_ to_fp 11 53) RNE {I}.0))
(define-fun zero () (_ FloatingPoint 11 53) ((_ to_fp 11 53) RNE 0.0))
(define-fun top () (_ FloatingPoint 11 53) ((_ to_fp 11 53) RNE {TOP}.0))
(assert (fp.leq zero s)) (assert (fp.leq s t)) (assert (fp.leq t top))
; e = t - s  (Python float subtraction, round-to-nearest-even)
(define-fun e () (_ FloatingPoint 11 53) (fp.sub RNE t s))
; Python's float % for positive operands: C fmod (exact, sign of dividend). fp.rem is the IEEE remainder (nearest);
; fmod(e,I) = rem(e,I) if rem >= 0 else rem + I  -- the correction is exact because |rem| <= I/2.
(define-fun r0 () (_ FloatingPoint 11 53) (fp.rem e I))
(define-fun m () (_ FloatingPoint 11 53) (ite (fp.lt r0 zero) (fp.add RNE r0 I) r0))
(define-fun delay () (_ FloatingPoint 11 53) (fp.sub RNE I m))
; negated claim: delay not in (0, I]
(assert (not (and (fp.lt zero delay) (fp.leq delay I))))
(check-sat)
"""


def _timer_delay_expr_present():
    """The lemma is about one source line; regenerate only if that expression is still what the code computes."""
    import inspect
    src = inspect.getsource(T._call_periodic)
    return re.search(r"interval\s*-\s*\(\(loop\.time\(\)\s*-\s*start\)\s*%\s*interval\)", src) is not None


def extra_obligations(tier):
    out = []
    if not _timer_delay_expr_present():
        # the lemma is generated for that one source expression only; the repaired code computes the next deadline with a
        # float floor-division, whose QF_FP encoding neither cvc5 nor z3 decides within 300 s (DESIGN.md C15) -> outside
        return []
    intervals = [5] if tier == "quick" else [1, 2, 5]
    budget = 90 if tier == "quick" else 300
    procs = []
    d = tempfile.mkdtemp(prefix="c15fp_", dir=os.path.join(os.path.dirname(os.path.dirname(os.path.dirname(os.path.abspath(__file__)))), ".gen"))
    for I in intervals:
        f = os.path.join(d, "delay_%d.smt2" % I)
        open(f, "w").write(_FP_TMPL.format(I=I, TOP=2 ** 20))
        t0 = time.time()
        procs.append((I, f, t0, subprocess.Popen(["cvc5", "--tlimit=%d" % (budget * 1000), f], stdout=subprocess.PIPE,
                                                 stderr=subprocess.PIPE, text=True)))
    for I, f, t0, p in procs:
        try:
            so, se = p.communicate(timeout=budget + 20)
        except subprocess.TimeoutExpired:
            p.kill(); so, se = "timeout", ""
        ans = so.strip().splitlines()[0] if so.strip() else "none"
        name = "fp-delay-lemma interval=%d: 0<=start<=now<=2^20 => 0 < interval-((now-start)%%interval) <= interval (IEEE double, cvc5)" % I
        if "(error" in so or "(error" in se or "error" in se.lower():
            st = {"name": name, "status": "inconclusive", "why": "solver error: " + (so + se)[:200]}
        elif ans == "unsat":
            st = {"name": name, "status": "confirmed"}
        elif ans == "sat":
            # not replayed automatically; report as inconclusive rather than as a violation without reproduction
            st = {"name": name, "status": "inconclusive", "why": "cvc5 answered sat (model not replayed)"}
        else:
            st = {"name": name, "status": "inconclusive", "why": "cvc5: " + ans}
        st["solver"] = "cvc5 (binary on PATH)"; st["wall_s"] = round(time.time() - t0, 1)
        out.append(st)
    import shutil; shutil.rmtree(d, ignore_errors=True)
    return out


def bounds(tier):
    K = 3 if tier == "quick" else 5
    return {"ticks per script": K, "interval": "0..5 (stopping), 1..5000 grid units (placement)", "start": "0..10^6",
            "dispatch latency / callback duration": "0..20000 grid units each, symbolic per tick",
            "early dispatch": "0 or 1 grid unit before the deadline (interval >= 2)",
            "timers": 2, "external .timerc": "before any of the first 6 dispatches or never",
            "fp lemma": "interval in %s, 0 <= start <= now <= 2^20" % ([5] if tier == "quick" else [1, 2, 5])}


def obligations(tier):
    q = tier == "quick"
    K = 3 if q else 5
    T_ = 60 if q else 400
    obs = []
    for I in ([1, 2, 5] if q else [1, 2, 3, 5, 60, 1000]):
        obs.append({"name": "placement/late interval=%d K=%d" % (I, K), "fn": "placement", "cfg": {"ticks": K, "interval": I}, "timeout": T_})
    for I in ([2, 5] if q else [2, 3, 5, 60, 1000]):
        obs.append({"name": "placement/early interval=%d K=3" % I, "fn": "placement_early", "cfg": {"ticks": 3, "interval": I}, "timeout": T_})
    pairs = [(1, 2), (0, 1), (2, 1), (5, 2), (0, 0), (1, 1)] if q else [(a, b) for a in (0, 1, 2, 5) for b in (0, 1, 2, 5)]
    for (i1, i2) in pairs:
        obs.append({"name": "stopping intervals=%d,%d K=%d" % (i1, i2, 3 if q else 4), "fn": "stopping",
                    "cfg": {"ticks": 3 if q else 4, "interval": i1, "interval2": i2, "maxlate": 6 if q else 12}, "timeout": T_ * 3})
    obs.append({"name": "api+re-resolution", "fn": "api", "cfg": {}, "timeout": T_ * 2})
    return obs


def _probe_early():
    loop = Loop(0, early=1)
    ticks = []
    h = _call_periodic(loop, "t", 10, lambda: ticks.append(loop.now) or 1)
    loop.run_next(0, use_early=True); loop.run_next(0)
    return len(ticks) == 2 and ticks[1] <= 10      # two invocations for the boundary at t=10


FINDING_PROBES = {"C15/early-dispatch-double-tick": _probe_early}
