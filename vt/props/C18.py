"""C18 - the file cache is linearizable under concurrent get, update and unload.

Real code executed: every FileCache method with its real lock discipline, on real threads that are run one at a time by a
deterministic scheduler (vt.sched).  The SCHEDULE is symbolic: which actor continues at every preemption point is a
solver variable, so z3 enumerates the interleavings (bounded number of preemptions).  File system: in-memory model whose
open/read/write are preemption points; replay uses real files in a scratch directory with the same forced schedule.
"""
import itertools, os, tempfile, shutil
from vt.world import enter, verdict, cfg, CFG, pick, cut, MODE
from vt import modelfs as M
from vt import sched as S
from vt import kf
import klongpy.db.file_cache as FC

PROPERTY = "C18"
FUNCTIONS = ["klongpy.db.file_cache.FileCache.%s" % m for m in
             ("update_file", "get_file", "unload_file", "_write_file", "_load_file", "update_file_futures_and_memory", "recover_memory",
              "_unload_file", "update_file_access_time")]
ASSUMPTIONS = [
    "actors run on real threads, one at a time; a symbolic choice at every preemption point decides who continues (preemption-bounded)",
    "preemption points: start of every client call, start of every executor task, every open/read/write/close of the model file system, "
    "every wait for a future, and (in the lock-point obligations) right before every acquisition of the cache lock; never while the "
    "cache lock is held (a real contender would block there)",
    "threading.Lock acquisition is atomic; executor = one task actor per submit; contents, sizes and the memory limit are concrete",
]
OUTSIDE = ["more preemptions than the bound", "real OS scheduling / timing", "crashes (C17)"]

INITIAL = b"init"
INITIAL_B = b"second"
FILES = ["a", "b"]


class _Redundant(Exception):
    pass


class Hist:
    def __init__(self):
        self.t = 0; self.ops = []

    def begin(self, kind, f, arg=None):
        self.t += 1
        op = {"kind": kind, "file": f, "arg": arg, "inv": self.t, "res": None, "ret": None, "exc": None}
        self.ops.append(op)
        return op

    def end(self, op, ret=None, exc=None):
        self.t += 1
        op["res"] = self.t; op["ret"] = ret; op["exc"] = exc


def linearizable(ops, initial):
    """register per file: some total order consistent with real time explains every return value"""
    byfile = {}
    for o in ops:
        byfile.setdefault(o["file"], []).append(o)
    for f, os_ in byfile.items():
        os_ = [o for o in os_ if o["kind"] in ("get", "update")]
        ok = False
        for perm in itertools.permutations(range(len(os_))):
            good = True
            for i in range(len(perm)):
                for j in range(i + 1, len(perm)):
                    a, b = os_[perm[i]], os_[perm[j]]
                    if b["res"] is not None and a["inv"] > b["res"]:
                        good = False        # b finished before a started, yet is ordered after a
            if not good:
                continue
            val = initial.get(f)
            for i in perm:
                o = os_[i]
                if o["kind"] == "update":
                    if o["ret"] is True:
                        val = o["arg"]
                else:
                    if o["exc"] is not None:
                        good = val is None and o["exc"] == "FileNotFoundError"
                    else:
                        good = o["ret"] == val
                    if not good:
                        break
            if good:
                ok = True; break
        if not ok:
            return False
    return True


# client operation table: (kind, file index, payload tag)
OPS = [("get", 0), ("get", 1), ("update", 0), ("update", 1), ("unload", 0), ("unload", 1)]


def concurrent(o1: int, o2: int, o3: int, o4: int, o5: int, o6: int,
               c0: int, c1: int, c2: int, c3: int, c4: int, c5: int, c6: int, c7: int, c8: int, c9: int) -> bool:
    """
    pre: 0 <= o1 < 6 and 0 <= o2 < 6 and 0 <= o3 < 6 and 0 <= o4 < 6 and 0 <= o5 < 6 and 0 <= o6 < 6
    pre: 0 <= c0 <= 3 and 0 <= c1 <= 3 and 0 <= c2 <= 3 and 0 <= c3 <= 3 and 0 <= c4 <= 3
    pre: 0 <= c5 <= 3 and 0 <= c6 <= 3 and 0 <= c7 <= 3 and 0 <= c8 <= 3 and 0 <= c9 <= 3
    post: _
    """
    enter()
    shape = CFG["shape"]                 # operations per client, e.g. [2, 1]
    nclients = len(shape)
    fixed = CFG.get("fixed_ops")
    opsel = [o1, o2, o3, o4, o5, o6][:sum(shape)]
    if fixed is not None:
        for i, f in enumerate(fixed):
            opsel[i] = f
    dom = CFG.get("ops_domain", [0, 1, 2, 3, 4, 5])
    plan = []; pos = 0
    for c in range(nclients):
        row = []
        for j in range(shape[c]):
            o = opsel[pos + j]
            if isinstance(o, int) and not hasattr(o, "var") and fixed is not None and pos + j < len(fixed):
                row.append(OPS[o])
            else:
                if o >= len(dom):
                    return True                      # outside this obligation's operation domain
                row.append(OPS[pick(dom, o)])
        plan.append(row); pos += shape[c]
    choices = [c0, c1, c2, c3, c4, c5, c6, c7, c8, c9]
    used = [0]

    def choose(n):
        i = used[0]; used[0] += 1
        if i >= len(choices):
            return 0
        c = choices[i]
        if c >= n:
            raise _Redundant()           # the same schedule is reached with c < n: do not explore it twice
        return pick(list(range(n)), c)
    sch = S.Scheduler(choose, preemptions=CFG.get("preemptions", 2))
    sch.lock_points = bool(CFG.get("lock_points", False))
    real_dir = None
    saved_lock = FC.Lock
    try:
        if MODE == "real" and CFG.get("real_files", True):
            real_dir = tempfile.mkdtemp(prefix="c18_")
            fs = _RealFS(real_dir, sch)
        else:
            fs = M.ModelFS()
            pts = tuple(CFG.get("points", ("open-r", "read", "open-w", "write", "close")))
            fs.hook = lambda op, path: sch.point(op + " " + path) if op in pts else None
        for f in FILES[:1]:
            fs.put("/" + f if real_dir is None else f, INITIAL) if hasattr(fs, "put") else fs.files.__setitem__("/" + f, INITIAL)
        initial = {FILES[0]: INITIAL, FILES[1]: None}
        if CFG.get("both_files"):
            # memory-pressure family: both files exist, the limit holds one of them plus a little: completions evict
            f = FILES[1]
            fs.put(f, INITIAL_B) if hasattr(fs, "put") else fs.files.__setitem__("/" + f, INITIAL_B)
            initial[f] = INITIAL_B
        ex = S.Executor(sch)
        M.install(FC, fs if real_dir is None else M.ModelFS(), executor=ex)
        if real_dir is not None:
            fs.install(FC)
        FC.Lock = sch.lock
        cache = FC.FileCache(max_memory=CFG.get("maxmem", 64), root_path="/" if real_dir is None else real_dir)
        hist = Hist()
        known_pattern = [False]

        def client(ci):
            for j, (kind, fi) in enumerate(plan[ci]):
                f = FILES[fi]
                sch.point("call %s %s" % (kind, f))
                if kind == "update":
                    # the listed finding: an update submitted while a load of the same file has not finished
                    info = cache.file_futures.get(f)
                    if info is not None and not info[0] and not info[2].done():
                        known_pattern[0] = True
                    payload = ("c%d-%d" % (ci, j)).encode()
                    op = hist.begin("update", f, payload)
                    try:
                        r = cache.update_file(f, payload)
                        hist.end(op, ret=r)
                    except Exception as e:
                        hist.end(op, exc=type(e).__name__)
                elif kind == "get":
                    op = hist.begin("get", f)
                    try:
                        r = cache.get_file(f)
                        hist.end(op, ret=bytes(r))
                    except Exception as e:
                        hist.end(op, exc=type(e).__name__)
                else:
                    info = cache.file_futures.get(f)
                    if info is not None and not info[0] and not info[2].done():
                        known_pattern[0] = True          # same listed finding: unload while a load of the file is in flight
                    op = hist.begin("unload", f)
                    try:
                        cache.unload_file(f)
                        hist.end(op, ret=None)
                    except Exception as e:
                        hist.end(op, exc=type(e).__name__)
        for ci in range(nclients):
            sch.spawn("client%d" % ci, client, (ci,))
        try:
            sch.run()
        except _Redundant:
            return True
        except S.Deadlock:
            return verdict(False)                   # every call returns
        if known_pattern[0] and kf.is_open("C18/update-during-load"):
            cut("known finding: update during in-flight load"); return True
        for a in sch.actors:
            if a.kind == "client" and a.exc is not None:
                return verdict(False)
        for o in hist.ops:
            if o["res"] is None:
                return verdict(False)
            if o["exc"] not in (None, "FileNotFoundError"):
                if CFG.get("debug"): print("unexpected exception", o)
                return verdict(False)               # no call may fail in any other way
        if not linearizable(hist.ops, initial):
            return verdict(False)
        # quiescence: disk == cache == last successful update; accounting == sum of entries
        tot = 0
        for name, info in cache.file_futures.items():
            if info[0] or not info[2].done():
                return verdict(False)
            tot += info[1]
            disk = fs.get(name)
            if bytes(info[2].result()) != disk:
                return verdict(False)
        if cache.current_memory_usage != tot or tot < 0 or tot > cache.max_memory:
            return verdict(False)
        heap = [fn for (t, fn) in cache.file_access_times]
        if sorted(heap) != sorted(cache.file_futures.keys()):
            return verdict(False)
        for f in FILES:
            ups = [o for o in hist.ops if o["kind"] == "update" and o["file"] == f and o["ret"] is True]
            if ups:
                last = max(ups, key=lambda o: o["res"])
                d = fs.get(f)
                # the disk holds the payload of a successful update that was not followed (in real time) by another one
                cands = [o["arg"] for o in ups if not any(p["inv"] > o["res"] for p in ups)]
                if d not in cands:
                    return verdict(False)
        return verdict(True)
    finally:
        sch.abort()
        FC.Lock = saved_lock
        M.uninstall(FC)
        if real_dir is not None:
            shutil.rmtree(real_dir, ignore_errors=True)


class _ModelGet:
    pass


def _fs_get(self, name):
    return self.files.get("/" + name)


M.ModelFS.get = _fs_get


class _RealFS:
    """real files in a scratch directory; open/read/write/close are preemption points (replay mode)"""
    def __init__(self, root, sch):
        self.root = root; self.sch = sch

    def put(self, name, data):
        with open(os.path.join(self.root, name), "wb") as f:
            f.write(data)

    def get(self, name):
        p = os.path.join(self.root, name)
        return open(p, "rb").read() if os.path.exists(p) else None

    def install(self, FCm):
        fsself = self
        import builtins

        class _F:
            def __init__(self, path, mode):
                fsself.sch.point(("open-w " if "w" in mode else "open-r ") + path)
                self.f = builtins.open(path, mode); self.path = path

            def read(self):
                fsself.sch.point("read " + self.path); return self.f.read()

            def write(self, d):
                fsself.sch.point("write " + self.path); return self.f.write(d)      # buffered, like the real writer

            def flush(self):
                self.f.flush()

            def fileno(self):
                return self.f.fileno()

            def __enter__(self):
                return self

            def __exit__(self, *a):
                fsself.sch.point("close " + self.path); self.f.close(); return False
        FCm.open = lambda path, mode: _F(path, mode)
        FCm.os = os


def bounds(tier):
    q = tier == "quick"
    return {"clients": "2 clients: 2 operations | 1 operation" if q else "[2|2], [1|1|1] and [2|1] operations per client", "files": 2,
            "operations": "get / update / unload of either file, chosen symbolically",
            "preemptions": "<= %d (context switches forced by blocking are free)" % (2 if q else 3),
            "schedule decisions": "<= 10 symbolic choices among the runnable actors"}


def obligations(tier):
    q = tier == "quick"
    obs = []
    if q:
        for a in (0, 2, 4):
            obs.append({"name": "one file, clients [2 ops | 1 op], first op %s" % (OPS[a],), "fn": "concurrent",
                        "cfg": {"shape": [2, 1], "preemptions": 2, "fixed_ops": [a], "ops_domain": [0, 2, 4], "points": ["read", "write"]},
                        "timeout": 400})
        for a in range(6):
            obs.append({"name": "two files, clients [1 op | 1 op], first op %s" % (OPS[a],), "fn": "concurrent",
                        "cfg": {"shape": [1, 1], "preemptions": 3, "fixed_ops": [a]}, "timeout": 400})
        for a in (0, 2, 4):
            obs.append({"name": "one file, clients [1 op | 1 op], preemption also before every lock acquisition, first op %s" % (OPS[a],),
                        "fn": "concurrent", "cfg": {"shape": [1, 1], "preemptions": 2, "fixed_ops": [a], "ops_domain": [0, 2, 4],
                                                    "lock_points": True, "points": ["open-r", "read", "open-w", "write"]}, "timeout": 400})
    else:
        if True:
            for b in (0, 1, 3):
                obs.append({"name": "memory pressure: two existing files, limit 8 bytes, clients [update a | %s | get a]" % (OPS[b],), "fn": "concurrent",
                            "cfg": {"shape": [1, 1, 1], "preemptions": 2, "fixed_ops": [2, b, 0], "both_files": True, "maxmem": 8,
                                    "points": ["open-w", "write", "read"]}, "timeout": 3000})
        for a in range(6):
            for b in range(6):
                obs.append({"name": "clients [2 | 2], first ops %s %s" % (OPS[a], OPS[b]), "fn": "concurrent",
                            "cfg": {"shape": [2, 2], "preemptions": 2, "fixed_ops": [a, b]}, "timeout": 3000})
                obs.append({"name": "clients [1 | 1 | 1], first ops %s %s" % (OPS[a], OPS[b]), "fn": "concurrent",
                            "cfg": {"shape": [1, 1, 1], "preemptions": 3, "fixed_ops": [a, b]}, "timeout": 3000})
                obs.append({"name": "clients [2 | 1] 3 preemptions, first ops %s %s" % (OPS[a], OPS[b]), "fn": "concurrent",
                            "cfg": {"shape": [2, 1], "preemptions": 3, "fixed_ops": [a, b]}, "timeout": 3000})
                obs.append({"name": "memory pressure [1 | 1 | 1], first ops %s %s" % (OPS[a], OPS[b]), "fn": "concurrent",
                            "cfg": {"shape": [1, 1, 1], "preemptions": 2, "fixed_ops": [a, b], "both_files": True, "maxmem": 8}, "timeout": 3000})
    return obs


def _sweep(ops):
    """concrete sweep of short schedules for a fixed pair of single-operation clients; True if some schedule violates"""
    import itertools as it
    saved = dict(CFG)
    try:
        CFG.clear(); CFG.update({"shape": [1, 1], "preemptions": 3, "fixed_ops": list(ops), "real_files": False})
        for ch in it.product(range(2), repeat=9):
            if concurrent(0, 0, 0, 0, 0, 0, *ch, 0) is False:
                return True
        return False
    finally:
        CFG.clear(); CFG.update(saved)


FINDING_PROBES = {
    "C18/update-during-load": lambda: _sweep([0, 2]),       # get a || update a
    "C18/unload-during-task": lambda: _sweep([0, 4]) or _sweep([3, 5]),   # get a || unload a ; update b || unload b
}
