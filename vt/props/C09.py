"""C09 - the interpreter is a faithful dictionary of Python values and functions.

Real code executed symbolically: interpreter.set_context_var, KlongInterpreter.__setitem__/__getitem__/__delitem__,
KlongContext.__setitem__/__getitem__, KGLambda.__init__/_get_pos_args/__call__, safe_inspect, KGFnWrapper.__call__,
KlongInterpreter._eval_fn/call, sys_fn._handle_import (signature -> x,y,z mapping).
"""
from typing import List
from vt.world import enter, verdict, cfg, CFG, pick, cut
from vt import npworld as W
import klongpy.interpreter as I
import klongpy.sys_fn as SF
from klongpy.core import KGSym, KGLambda, KGCall, KGFnWrapper, KLONG_UNDEFINED

PROPERTY = "C09"
USES_SYMNP = True
I.compile_expr = lambda ast, klong: None
K = W.interpreter()
FUNCTIONS = ["klongpy.interpreter.set_context_var", "klongpy.interpreter.KlongInterpreter.__setitem__",
             "klongpy.interpreter.KlongInterpreter.__getitem__", "klongpy.interpreter.KlongInterpreter.__delitem__",
             "klongpy.interpreter.KlongContext.__setitem__", "klongpy.types.KGLambda.__init__", "klongpy.types.KGLambda._get_pos_args",
             "klongpy.types.KGLambda.__call__", "klongpy.types.safe_inspect", "klongpy.types.KGFnWrapper.__call__",
             "klongpy.interpreter.KlongInterpreter._eval_fn", "klongpy.sys_fn._handle_import"]
ASSUMPTIONS = [
    "NumPy = vt.symnp (conformance-gated; witnesses replayed on real NumPy); expression compiler disabled",
    "callables are recording Python functions from a fixed table (arity 0..3, with and without a leading klong parameter)",
    "argument values are symbolic integers (a wrong binding order is then wrong for all values)",
]
OUTSIDE = ["torch backend", "keyword arguments (.pyc)", "builtins without inspectable signatures"]

LOG = []


def f0():
    LOG.append(("f0",)); return 100


def f1(x):
    LOG.append(("f1", x)); return x + 1


def f2(x, y):
    LOG.append(("f2", x, y)); return x - 2 * y


def f3(x, y, z):
    LOG.append(("f3", x, y, z)); return x - 2 * y + 5 * z


def fk1(klong, x):
    LOG.append(("fk1", klong is K, x)); return x + 2


def fk2(klong, x, y):
    LOG.append(("fk2", klong is K, x, y)); return 3 * x - y


def g1(x):
    LOG.append(("g1", x)); return x + 1000


# parameter NAMES out of the canonical order: arguments are still passed by position (first argument -> first parameter)
def f2r(y, x):
    LOG.append(("f2r", y, x)); return y - 2 * x


def f3r(z, x, y):
    LOG.append(("f3r", z, x, y)); return z - 2 * x + 5 * y


def fk2r(klong, y, x):
    LOG.append(("fk2r", klong is K, y, x)); return 3 * y - x


import functools as _ft


def _logged(fn):
    """an ordinary decorator: the wrapper takes *args, the signature is the wrapped function's (functools.wraps)"""
    @_ft.wraps(fn)
    def wrapper(*args, **kwargs):
        return fn(*args, **kwargs)
    return wrapper


@_logged
def fd2(x, y):
    LOG.append(("fd2", x, y)); return x - 2 * y


@_logged
def fdk1(klong, x):
    LOG.append(("fdk1", klong is K, x)); return x + 2


TABLE = [("f0", f0, 0), ("f1", f1, 1), ("f2", f2, 2), ("f3", f3, 3), ("fk1", fk1, 1), ("fk2", fk2, 2),
         ("f2r", f2r, 2), ("f3r", f3r, 3), ("fk2r", fk2r, 2), ("fd2", fd2, 2), ("fdk1", fdk1, 1)]


def _clean():
    ctx = K._context._context
    while len(ctx) > 3:
        ctx.popleft()
    ctx[0].clear()
    K._parse_cache.clear(); K._compiled_cache.clear()
    del LOG[:]


def callables(a: int, b: int, c: int, fi: int, form: int, redefine: bool) -> bool:
    """
    pre: 0 <= fi < len(TABLE) and fi == CFG.get('fi', fi)
    pre: 0 <= form <= 5
    post: _
    """
    # a Python callable is called exactly once per application with exactly the evaluated arguments, in order
    enter()
    name, fn, arity = pick(TABLE, fi)
    try:
        _clean()
        K['A'] = a; K['B'] = b; K['C'] = c
        if redefine:
            K['h'] = g1                   # first bind the name to another callable, then rebind it
        K['h'] = fn
        args = [a, b, c][:arity]
        want_log = None; want = None
        py = {"f0": lambda: 100, "f1": lambda x: x + 1, "f2": lambda x, y: x - 2 * y, "f3": lambda x, y, z: x - 2 * y + 5 * z,
              "fk1": lambda x: x + 2, "fk2": lambda x, y: 3 * x - y,
              "fd2": lambda x, y: x - 2 * y, "fdk1": lambda x: x + 2,
              "f2r": lambda p, q: p - 2 * q, "f3r": lambda p, q, r: p - 2 * q + 5 * r, "fk2r": lambda p, q: 3 * p - q}[name]
        tag = lambda *v: (name,) + ((True,) if name.startswith(("fk", "fdk")) else ()) + tuple(v)
        if form == 0:                                                     # direct
            text = "h(" + ";".join("ABC"[:arity]) + ")"
            want = py(*args); want_log = [tag(*args)]
        elif form == 1:                                                   # through another variable
            text = "hh::h;hh(" + ";".join("ABC"[:arity]) + ")"
            want = py(*args); want_log = [tag(*args)]
        elif form == 2:                                                   # @ application
            if arity == 0:
                return True
            text = "h@A" if arity == 1 else "h@[;" + ";".join("ABC"[:arity]) + "]"
            want = py(*args); want_log = [tag(*args)]
        elif form == 3:                                                   # projection, then fill
            if arity < 2:
                return True
            text = ("h(A;)@B" if arity == 2 else "h(A;;C)@B")
            want = py(*args); want_log = [tag(*args)]
        elif form == 4:                                                   # each (monads) / over (dyads)
            if arity == 1:
                text = "h'[;A;B]"; want = [py(a), py(b)]; want_log = [tag(a), tag(b)]
            elif arity == 2:
                text = "h/[;A;B;C]"; want = py(py(a, b), c); want_log = [tag(a, b), tag(py(a, b), c)]
            else:
                return True
        else:                                                             # read back with klong[name] and call from Python
            back = K['h']
            if not callable(back):
                return verdict(False)
            if arity == 0:
                return True
            got = back(*args) if not isinstance(back, (KGCall, KGLambda)) else None
            if got is None:
                # a stored Python callable reads back as the interpreter's wrapper: calling through Klong must still work
                text = "h(" + ";".join("ABC"[:arity]) + ")"
                want = py(*args); want_log = [tag(*args)]
            else:
                return verdict(W.canon(got) == W.canon(py(*args)) and LOG == [tag(*args)])
        got = K(text)
        ok = W.canon(got) == W.canon(want)
        ok = ok and len(LOG) == len(want_log)
        if ok:
            for l, w in zip(LOG, want_log):
                if len(l) != len(w) or l[0] != w[0]:
                    return verdict(False)
                for p, q in zip(l[1:], w[1:]):
                    if W.canon(p) != W.canon(q):
                        return verdict(False)
        return verdict(ok)
    except Exception as e:
        if type(e).__name__ == "OutsideModel":
            cut(str(e)[:60]); return True
        raise


def data(n: int, v: List[int], s: str, kind: int) -> bool:
    """
    pre: len(v) <= 3 and len(s) <= 2
    pre: 0 <= kind <= 5
    post: _
    """
    # klong[name]=v ; klong[name] is v ; programs see it as name
    enter()
    try:
        _clean()
        if kind == 0:
            val = n
        elif kind == 1:
            val = W.arr(list(v))
        elif kind == 2:
            val = s
        elif kind == 3:
            val = {"k": n}
        elif kind == 4:
            val = W.arr([n, list(v), s])
        else:
            val = KGSym("sym")
        K['d1'] = 5
        K['d1'] = val                      # rebinding an existing name
        K['d2'] = val
        ok = K['d1'] is val and K['d2'] is val
        r = K('d1')
        ok = ok and (r is val)
        K('d3::d1')
        ok = ok and W.canon(K['d3']) == W.canon(val)
        del K['d2']
        try:
            K['d2']
            ok = False
        except KeyError:
            pass
        return verdict(ok)
    except Exception as e:
        if type(e).__name__ == "OutsideModel":
            cut(str(e)[:60]); return True
        raise


def wrapper(a: int, b: int, c: int, arity: int, step: int, nargs: int) -> bool:
    """
    pre: 1 <= arity <= 3
    pre: 0 <= step <= 2
    pre: 0 <= nargs <= 4
    post: _
    """
    # a Klong function obtained as klong[name] called from Python == the Klong call; follows redefinition; checks the argument count
    enter()
    try:
        _clean()
        bodies = {1: ("{(2*x)+1}", lambda x: 2 * x + 1), 2: ("{x-2*y}", lambda x, y: x - 2 * y), 3: ("{(x-2*y)+5*z}", lambda x, y, z: x - 2 * y + 5 * z)}
        redef = {1: ("{x-7}", lambda x: x - 7), 2: ("{y-x}", lambda x, y: y - x), 3: ("{z-(x+y)}", lambda x, y, z: z - (x + y))}
        src, py = bodies[arity]
        K('fn::' + src)
        w = K['fn']
        if not isinstance(w, KGFnWrapper):
            return verdict(False)
        args = [a, b, c][:arity]
        if step == 1:
            K('fn::' + redef[arity][0]); py = redef[arity][1]           # later redefinitions are followed
        elif step == 2:
            K('other::fn'); del K['fn']                                  # name deleted: falls back to the function it was given
        if nargs != arity:
            try:
                w(*[a, b, c, a][:nargs])
            except RuntimeError:
                return verdict(True)
            except Exception:
                return verdict(False)
            return verdict(False)                                       # a wrong number of arguments must be rejected
        got = w(*args)
        K['A'] = a; K['B'] = b; K['C'] = c
        if step != 2:
            viaklong = K("fn(" + ";".join("ABC"[:arity]) + ")")
            if W.canon(viaklong) != W.canon(got):
                return verdict(False)
        # list arguments arrive as arrays
        if arity == 1 and step == 0:
            lst = w([a, b])
            if W.canon(lst) != W.canon([py(a), py(b)]):
                return verdict(False)
        return verdict(W.canon(got) == W.canon(py(*args)))
    except Exception as e:
        if type(e).__name__ == "OutsideModel":
            cut(str(e)[:60]); return True
        raise


def wrapper_history(a: int, b: int, c: int, arity: int, o1: int, o2: int, o3: int, o4: int) -> bool:
    """
    pre: 1 <= arity <= 3 and arity == CFG.get('arity', arity)
    pre: 0 <= o1 <= 5 and 0 <= o2 <= 5 and 0 <= o3 <= 5 and 0 <= o4 <= 5 and o1 == CFG.get('o1', o1)
    post: _
    """
    # histories of  0 call | 1 define body A | 2 define body B | 3 delete the name | 4 define a body of ANOTHER arity | 5 read the handle again  after the wrapper was obtained: every call
    # through the wrapper runs the CURRENT definition of the name (the one it was created from while the name is unbound) and
    # agrees with the Klong call whenever the name is bound
    enter()
    try:
        _clean()
        A_ = {1: ("{(2*x)+1}", lambda x: 2 * x + 1), 2: ("{x-2*y}", lambda x, y: x - 2 * y), 3: ("{(x-2*y)+5*z}", lambda x, y, z: x - 2 * y + 5 * z)}
        B_ = {1: ("{x-7}", lambda x: x - 7), 2: ("{y-x}", lambda x, y: y - x), 3: ("{z-(x+y)}", lambda x, y, z: z - (x + y))}
        K('fn::' + A_[arity][0])
        w = K['fn']
        orig = A_[arity][1]; bound = orig
        args = [a, b, c][:arity]
        other = 1 if arity > 1 else 2                 # the arity of the redefinition made by op 4
        cur_arity = arity; orig_arity = arity
        K['A'] = a; K['B'] = b; K['C'] = c
        for o in [o1, o2, o3, o4][:CFG.get('steps', 4)]:
            if o == 1:
                K('fn::' + A_[arity][0]); bound = A_[arity][1]; cur_arity = arity
            elif o == 2:
                K('fn::' + B_[arity][0]); bound = B_[arity][1]; cur_arity = arity
            elif o == 4:
                K('fn::' + B_[other][0]); bound = B_[other][1]; cur_arity = other
            elif o == 3:
                if bound is None:
                    continue
                del K['fn']; bound = None; cur_arity = orig_arity
            elif o == 5:
                # the handle is read AGAIN (klong['fn']): it is created from the definition current NOW, which is the one it
                # falls back to when the name is deleted later
                if bound is None:
                    continue
                w = K['fn']; orig = bound; orig_arity = cur_arity
            else:
                cargs = [a, b, c][:cur_arity]
                got = w(*cargs)
                want = (bound or orig)(*cargs)
                if W.canon(got) != W.canon(want):
                    return verdict(False)
                if bound is not None and W.canon(K("fn(" + ";".join("ABC"[:cur_arity]) + ")")) != W.canon(got):
                    return verdict(False)
        return verdict(True)
    except Exception as e:
        if type(e).__name__ == "OutsideModel":
            cut(str(e)[:60]); return True
        raise


def imported(a: int, b: int, c: int, which: int) -> bool:
    """
    pre: 0 <= which <= 5
    post: _
    """
    # .py / .pyf imports map the signature onto x,y,z: required positional parameters in order, optional ones dropped
    enter()
    try:
        _clean()

        def p1(u):
            LOG.append(("p1", u)); return u + 1

        def p2(u, v):
            LOG.append(("p2", u, v)); return u - 2 * v

        def p3(u, v, w):
            LOG.append(("p3", u, v, w)); return u - 2 * v + 5 * w

        def p2opt(u, v, w=7):
            LOG.append(("p2opt", u, v, w)); return u - 2 * v + 5 * w

        def pk(klong, u):
            LOG.append(("pk", klong is K, u)); return u + 2

        def pstar(*args):
            LOG.append(("pstar",) + tuple(args)); return len(args)
        fns = [(p1, 1), (p2, 2), (p3, 3), (p2opt, 2), (pk, 1), (pstar, 3)]
        fn, arity = pick(fns, which)
        item = SF._handle_import(fn)
        I.set_context_var(K._context._context[0], KGSym("imp"), item)
        K['A'] = a; K['B'] = b; K['C'] = c
        args = [a, b, c][:arity]
        got = K("imp(" + ";".join("ABC"[:arity]) + ")")
        if fn is p2opt:
            want = a - 2 * b + 35; wl = [("p2opt", a, b, 7)]
        elif fn is pk:
            want = a + 2; wl = [("pk", True, a)]
        elif fn is pstar:
            want = 3; wl = [("pstar", a, b, c)]
        else:
            want = fn.__wrapped__(*args) if hasattr(fn, "__wrapped__") else None
            wl = None
        if wl is None:
            del LOG[:]
            want = fn(*args); wl = [LOG[-1]]; del LOG[:]
            got = K("imp(" + ";".join("ABC"[:arity]) + ")")
        if W.canon(got) != W.canon(want) or len(LOG) != 1:
            return verdict(False)
        l, w_ = LOG[0], wl[0]
        if len(l) != len(w_):
            return verdict(False)
        for p, q in zip(l[1:], w_[1:]):
            if W.canon(p) != W.canon(q):
                return verdict(False)
        return verdict(True)
    except Exception as e:
        if type(e).__name__ == "OutsideModel":
            cut(str(e)[:60]); return True
        raise


def bounds(tier):
    return {"callables": [t[0] for t in TABLE], "call forms": ["direct", "via variable", "@", "projection+fill", "each/over", "read back"],
            "rebinding": "name bound once / bound to another callable first", "wrapper": "arity 1..3, redefined / deleted / unchanged, 0..4 arguments; histories of 4 operations (call, define A, define B, delete, define another arity, read the handle again); quick: arity 2, thorough: arity 1..3",
            "data": "int, vector (len <= 3), string (len <= 2), dictionary, nested list, symbol", "values": "unbounded symbolic integers"}


def obligations(tier):
    q = tier == "quick"
    T_ = 300 if q else 900
    obs = []
    for fi in range(len(TABLE)):
        obs.append({"name": "callable %s" % TABLE[fi][0], "fn": "callables", "cfg": {"fi": fi}, "timeout": T_})
    obs += [{"name": "data values", "fn": "data", "cfg": {}, "timeout": T_},
            {"name": "function wrapper", "fn": "wrapper", "cfg": {}, "timeout": T_},
            ] + [{"name": "function wrapper: call / redefine / delete histories, arity %d, first op %d" % (ar, o1), "fn": "wrapper_history",
                  "cfg": {"steps": 4, "arity": ar, "o1": o1}, "timeout": T_ + 200} for ar in ((2,) if q else (1, 2, 3)) for o1 in range(6)] + [
            {"name": "imported signatures", "fn": "imported", "cfg": {}, "timeout": T_}]
    return obs
