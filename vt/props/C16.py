"""C16 - the file-backed key-value store is a persistent dictionary; the cache's accounting is exact.

Real code executed symbolically: every method of klongpy.db.file_cache.FileCache, KeyValueStorage.get/set,
helpers.serialize_obj/deserialize_obj/key_to_file_path.  Stand-ins: model FS, lazy executor, monotone clock.
"""
from vt.world import enter, verdict, cfg, CFG, pick
import copy as _copy
from vt import modelfs as M
import klongpy.db.file_cache as FC
import klongpy.db.sys_fn_kvs as KVS
from klongpy.core import KLONG_UNDEFINED

PROPERTY = "C16"
FUNCTIONS = ["klongpy.db.file_cache.FileCache.%s" % m for m in
             ("__init__", "update_file", "get_file", "_write_file", "_load_file", "update_file_futures_and_memory",
              "recover_memory", "_unload_file", "unload_file", "update_file_access_time", "process_contents")] + \
            ["klongpy.db.sys_fn_kvs.KeyValueStorage.get", "klongpy.db.sys_fn_kvs.KeyValueStorage.set",
             "klongpy.db.helpers.serialize_obj", "klongpy.db.helpers.deserialize_obj", "klongpy.db.helpers.key_to_file_path"]
ASSUMPTIONS = [
    "file system = in-memory model (open/read/write/fsync/makedirs/exists/getsize), installed by attribute assignment on klongpy.db.file_cache",
    "executor = lazy: a submitted task runs when its future is awaited (one legal schedule; other schedules are C18's subject)",
    "time_ns is strictly increasing",
    "FileCache level: contents are opaque blobs with a symbolic length; KVS level: real pickles of a fixed value table",
    "CrossHair tuning: format()/callable() of symbolic numbers do not realise them (log/exception texts are not the subject)",
]
OUTSIDE = ["TableStorage / PandasDataFrameCache (pandas C code)", "concurrent use (C18)", "crashes (C17)"]

NAMES = ["a", "sub/b"]


def _inv(c, model, fs):
    """accounting and structure invariants at quiescence"""
    tot = 0
    for name, info in c.file_futures.items():
        if info[0]:
            return False                      # nothing may still be marked as being written
        if not info[2].done():
            return False
        tot = tot + info[1]
    if c.current_memory_usage != tot:
        return False
    if c.current_memory_usage < 0 or c.current_memory_usage > c.max_memory:
        return False
    heap_names = [fn for (t, fn) in c.file_access_times]
    if len(heap_names) != len(set(heap_names)):
        return False
    if set(heap_names) != set(c.file_futures.keys()):
        return False
    for name, blob in model.items():         # disk == last update
        if fs.files.get("/" + name) is not blob:
            return False
    return True


def fc_seq(maxmem: int, o1: int, o2: int, o3: int, o4: int, o5: int, s0: int, s1: int, s2: int, s3: int, s4: int) -> bool:
    """
    pre: 1 <= maxmem <= 64
    pre: 0 <= o1 <= 7 and 0 <= o2 <= 7 and 0 <= o3 <= 7 and 0 <= o4 <= 7 and 0 <= o5 <= 7
    pre: 0 <= s0 <= 64 and 0 <= s1 <= 64 and 0 <= s2 <= 64 and 0 <= s3 <= 64 and 0 <= s4 <= 64
    post: _
    """
    # op = kind*2 + file;  kind 0 update, 1 get, 2 unload, 3 reopen (a new cache object on the same directory)
    enter()
    n = cfg("steps", 3)
    first = cfg("first", None)
    ops = [o1, o2, o3, o4, o5][:n]
    if first is not None:
        for i, f in enumerate(first):
            ops[i] = f
    sizes = [s0, s1, s2, s3, s4][:n]
    fs = M.ModelFS(); M.install(FC, fs)
    try:
        c = FC.FileCache(max_memory=maxmem, root_path="/")
        model = {}
        ok = True
        for i in range(n):
            o = ops[i]; s = sizes[i]
            name = pick(NAMES, o % 2)
            kind = o // 2
            if kind == 0:
                blob = M.Blob(s, (i, name))
                try:
                    applied = c.update_file(name, blob)
                except MemoryError:
                    if not (s > maxmem):
                        return verdict(False)        # refused although it fits
                    if not _inv(c, model, fs):
                        return verdict(False)        # a refused update has no effect
                    continue
                if s > maxmem or not applied:
                    return verdict(False)
                model[name] = blob
            elif kind == 1:
                try:
                    r = c.get_file(name)
                except FileNotFoundError:
                    if name in model:
                        return verdict(False)
                    continue
                if name not in model or r is not model[name]:
                    return verdict(False)
            elif kind == 2:
                c.unload_file(name)
            else:
                c = FC.FileCache(max_memory=maxmem, root_path="/")
            if not _inv(c, model, fs):
                return verdict(False)
        # finally every file reads back as last written, through this cache and through a fresh one
        c2 = FC.FileCache(max_memory=maxmem, root_path="/")
        for cc in (c, c2):
            for name in NAMES:
                if name in model:
                    if cc.get_file(name) is not model[name]:
                        return verdict(False)
                    if not _inv(cc, model, fs):
                        return verdict(False)
        return verdict(ok)
    finally:
        M.uninstall(FC)


VALUES = [1, "a longer string value", [1, "s", {"k": 3}]]
KEYS = ["a", "d/b", "never"]
NESTED_UNDER_FILE = "a/x"      # a key whose directory part is another key's FILE: its set must fail cleanly


def kvs_seq(o1: int, o2: int, o3: int, o4: int, o5: int, v1: int, v2: int, v3: int, v4: int, v5: int) -> bool:
    """
    pre: 0 <= o1 <= 7 and 0 <= o2 <= 7 and 0 <= o3 <= 7 and 0 <= o4 <= 7 and 0 <= o5 <= 7
    pre: 0 <= v1 <= 2 and 0 <= v2 <= 2 and 0 <= v3 <= 2 and 0 <= v4 <= 2 and 0 <= v5 <= 2
    post: _
    """
    # op: 0/1 set key a / d/b ; 2/3/4 get a / d/b / never ; 5 reopen the store ; 6 set through __setitem__ + get through __getitem__
    # 7 set the key a/x (its directory is the FILE of key a, if a was set): fails in the file system; nothing else may change
    enter()
    n = cfg("steps", 3)
    maxmem = cfg("maxmem", 40)        # small enough that two values do not always fit: forces evictions
    ops = [o1, o2, o3, o4, o5][:n]; vals = [v1, v2, v3, v4, v5][:n]
    first = cfg("first", None)
    if first is not None:
        for i, f in enumerate(first):
            ops[i] = f
    fs = M.ModelFS(); M.install(FC, fs)
    touched = []
    fs.hook = lambda op, path: touched.append(path) if op in ("open-w", "rename", "unlink", "flush") else None
    try:
        st = KVS.KeyValueStorage("/", max_memory=maxmem)
        model = {}
        for i in range(n):
            o = ops[i]
            if o == 7:
                # a set that cannot succeed (directory component is a regular file) or that creates the directory a/ when a
                # was never set: either way accounting and every other key stay as they were
                try:
                    st.set(NESTED_UNDER_FILE, 5)
                    if "a" in model:
                        return verdict(False)           # it cannot have been stored: /a is a file
                    model[NESTED_UNDER_FILE] = 5
                except (OSError, MemoryError):
                    if "a" not in model:
                        return verdict(False)
                    # the failed entry must not stay behind as a phantom
            elif o <= 1 or o == 6:
                k = pick(KEYS, o) if o <= 1 else KEYS[0]
                if k == "a" and NESTED_UNDER_FILE in model:
                    continue                            # /a is a directory now: outside this obligation
                v = _copy.deepcopy(pick(VALUES, vals[i]))
                model[k] = _copy.deepcopy(v)
                del touched[:]
                if o == 6:
                    st[k] = v
                else:
                    st.set(k, v)
                # footprint: keys ARE file names, so a set may create / truncate / rename / remove only its own file
                for pth in touched:
                    if pth != "/" + k:
                        return verdict(False)
                if isinstance(v, list):
                    v.append("changed by the caller after the set")       # the store holds the value as it was when set
            elif o <= 4:
                k = pick(KEYS, o - 2)
                r = st.get(k)
                if k in model:
                    if r != model[k] or type(r) is not type(model[k]):
                        return verdict(False)
                    if isinstance(r, list):
                        r.append("changed by the caller after the get")   # what a caller does to a result is not a set
                elif r is not KLONG_UNDEFINED:
                    return verdict(False)
            else:
                st = KVS.KeyValueStorage("/", max_memory=maxmem)
            c = st.cache
            tot = 0
            for name, info in c.file_futures.items():
                if info[0]:
                    if name == NESTED_UNDER_FILE and info[2].done():
                        continue                        # the entry of a write that failed keeps its (uncounted) claim: see OUTSIDE
                    return verdict(False)
                tot = tot + info[1]
            if c.current_memory_usage != tot or tot < 0 or tot > c.max_memory:
                return verdict(False)
            # every key, after every step
            for k in KEYS:
                if k == "a" and NESTED_UNDER_FILE in model:
                    continue
                r = st[k]
                if k in model:
                    if r != model[k]:
                        return verdict(False)
                    if isinstance(r, list):
                        r[0] = "scribbled"
                elif r is not KLONG_UNDEFINED:
                    return verdict(False)
        return verdict(True)
    finally:
        M.uninstall(FC)


def key_mapping(k1: str, k2: str) -> bool:
    """
    pre: len(k1) <= 3 and len(k2) <= 3
    post: _
    """
    # "other keys are unaffected" needs distinct keys to live in distinct files: the key -> file-name mapping is injective
    enter()
    from klongpy.db.helpers import key_to_file_path
    if k1 == k2:
        return True
    return verdict(key_to_file_path(k1) != key_to_file_path(k2))


def bounds(tier):
    q = tier == "quick"
    return {"steps": 3 if q else 5, "files/keys": "2 files (one in a sub-directory) / 3 keys (one never set)",
            "content size": "0..64 symbolic per update (FileCache level)", "max_memory": "1..64 symbolic (FileCache level); 40 and 200 bytes (KVS level)",
            "operations": "update, get, unload, reopen a new cache/store on the same directory; symbolic opcode per step"}


def obligations(tier):
    q = tier == "quick"
    obs = []
    obs.append({"name": "key -> file name mapping is injective (any two strings of length <= 3)", "fn": "key_mapping", "cfg": {}, "timeout": 120})
    if q:
        for f in range(8):
            obs.append({"name": "filecache 3 steps first=%d" % f, "fn": "fc_seq", "cfg": {"steps": 3, "first": [f]}, "timeout": 240})
        for mm in (40, 200):
            for f in range(8):
                obs.append({"name": "kvs 3 steps maxmem=%d first=%d" % (mm, f), "fn": "kvs_seq", "cfg": {"steps": 3, "maxmem": mm, "first": [f]}, "timeout": 240})
    else:
        for f in range(8):
            for g in range(8):
                obs.append({"name": "filecache 4 steps first=%d,%d" % (f, g), "fn": "fc_seq", "cfg": {"steps": 4, "first": [f, g]}, "timeout": 900})
        for mm in (40, 200):
            for f in range(8):
                for g in range(7):
                    obs.append({"name": "kvs 4 steps maxmem=%d first=%d,%d" % (mm, f, g), "fn": "kvs_seq", "cfg": {"steps": 4, "maxmem": mm, "first": [f, g]}, "timeout": 900})
    return obs


def _probe_missing():
    import tempfile, shutil
    d = tempfile.mkdtemp(prefix="c16_")
    try:
        try:
            return KVS.KeyValueStorage(d).get("nokey") is not KLONG_UNDEFINED
        except FileNotFoundError:
            return True
    finally:
        shutil.rmtree(d, ignore_errors=True)


FINDING_PROBES = {"C16/kvs-missing-key-raises": _probe_missing}
