"""C10 - a dictionary behaves as a finite map under any sequence of operations.

Real code executed symbolically (through the interpreter, program text): the dictionary branches of eval_dyad_join,
eval_dyad_find, eval_dyad_drop, eval_dyad_at_index, eval_monad_size, eval_adverb_each; kg_read(':{'), list_to_dict,
copy_lambda (dictionary literals), define/alias.
"""
from vt.world import enter, verdict, cfg, CFG, pick, cut, untraced
from vt import npworld as W
from klongpy.core import KGChar, KGSym, KLONG_UNDEFINED

import klongpy.interpreter as I
PROPERTY = "C10"
USES_SYMNP = True
I.compile_expr = lambda ast, klong: None      # dictionaries never reach the expression compiler; keep paths deterministic
K = W.interpreter()
K('mk::{:{[1 10] [2 20]}}')
K('mk2::{[a b];a::mk();b::mk();a,9,x;b}')     # two evaluations of one literal alive at once; the first is updated, the second returned
FUNCTIONS = ["klongpy.dyads.eval_dyad_join", "klongpy.dyads.eval_dyad_find", "klongpy.dyads.eval_dyad_drop",
             "klongpy.monads.eval_monad_size", "klongpy.adverbs.eval_adverb_each", "klongpy.parser.kg_read (dictionary literal)",
             "klongpy.parser.list_to_dict", "klongpy.parser.copy_lambda", "klongpy.dyads.eval_dyad_define"]
ASSUMPTIONS = [
    "keys come from a small concrete domain per kind (they are hashed, so the solver enumerates the domain); values are symbolic integers",
    "NumPy = vt.symnp (conformance-gated; witnesses replayed on real NumPy)",
]
OUTSIDE = ["real keys equal to integer keys (1 vs 1.0)", "iteration order beyond 'every pair exactly once'", "tables"]

KEYSETS = {
    "int": [0, 1, 2, -7],             # 0 first: a key that is also Klong's false / "nothing to drop" count
    "str": ["a", "b", "ab", ""],
    "sym": [KGSym("p"), KGSym("q"), KGSym("pq"), KGSym("x")],
    "mixed": [1, "a", KGSym("a"), KGChar("a")],
}


def _ck(x):
    return W.canon(x)


def _pairs_ok(got, model):
    """every key/value pair exactly once: keys are concrete (compared through their text), values compared symbolically"""
    c = W.canon(got)
    if len(c) != len(model):
        return False
    seen = {}
    for p in c:
        if not isinstance(p, list) or len(p) != 2:
            return False
        kk = tuple(p[0]) if isinstance(p[0], (tuple, list)) else p[0]      # no repr(): CrossHair would make it a symbolic string
        if kk in seen:
            return False
        seen[kk] = p[1]
    for k, v in model.items():
        kk = W.canon(k)
        kk = tuple(kk) if isinstance(kk, (tuple, list)) else kk
        if kk not in seen or seen[kk] != W.canon(v):
            return False
    return True


def dict_seq(o1: int, o2: int, o3: int, o4: int, o5: int, k1: int, k2: int, k3: int, k4: int, k5: int,
             v1: int, v2: int, v3: int, v4: int, v5: int) -> bool:
    """
    pre: 0 <= o1 <= 6 and 0 <= o2 <= 6 and 0 <= o3 <= 6 and 0 <= o4 <= 6 and 0 <= o5 <= 6
    pre: 0 <= k1 < CFG['nkeys'] and 0 <= k2 < CFG['nkeys'] and 0 <= k3 < CFG['nkeys'] and 0 <= k4 < CFG['nkeys'] and 0 <= k5 < CFG['nkeys']
    post: _
    """
    # op: 0 d,[k v]  1 [k v],d  2 k_d  3 add through the alias e  4 remove through the alias  5 d2::mk() (fresh literal) then d2,[k v]
    #     6 overwrite k with the value of another step
    enter()
    n = CFG["steps"]
    keys = KEYSETS[CFG["keys"]][:CFG["nkeys"] + 1]      # one more key than is ever used: it must always read :undefined
    ops = [o1, o2, o3, o4, o5][:n]; ks = [k1, k2, k3, k4, k5][:n]; vs = [v1, v2, v3, v4, v5][:n]
    first = CFG.get("first")
    if first is not None:
        for i, f in enumerate(first):
            ops[i] = f
    if CFG.get("tagged_values"):
        # values are opaque to the dictionary code (stored and handed back, never inspected): here every step stores its own
        # distinct concrete tag, the solver enumerates operations and keys, and each history runs with the tracer off
        ops = [pick(list(range(7)), o) for o in ops]; ks = [pick(list(range(CFG["nkeys"])), k) for k in ks]
        vs = [101, 202, 303, 404, 505][:n]
        with untraced():
            ok = _dict_body(n, keys, ops, ks, vs)
        return verdict(ok)
    return verdict(_dict_body(n, keys, ops, ks, vs))


def _dict_body(n, keys, ops, ks, vs):
    try:
        K('d:::{}'); K('e::d'); K('d2::mk()')     # parsed programs are cached across paths (parsing has no symbolic decisions)
        model = {}; model2 = {1: 10, 2: 20}
        for i in range(n):
            o = ops[i]; k = pick(keys, ks[i]); v = vs[i]
            K['k'] = k; K['v'] = v
            if o == 0:
                r = K('d,k,v'); model[k] = v
            elif o == 1:
                r = K('(k,v),d'); model[k] = v
            elif o == 2:
                r = K('k_d'); model.pop(k, None)
            elif o == 3:
                r = K('e,k,v'); model[k] = v
            elif o == 4:
                r = K('k_e'); model.pop(k, None)
            elif o == 5:
                K('d2::mk()'); model2 = {1: 10, 2: 20}
                K['k2'] = 1
                K('d2,k2,v'); model2[1] = v
            else:
                K('d,k,v'); K('d,k,v+1'); model[k] = v + 1
            # ---- observations: after every step the touched key and the size, after the last step every key of the domain,
            # through d and through the alias e
            for name in ("d", "e"):
                for kk in (keys if i == n - 1 else [k]):
                    K['q'] = kk
                    got = K(name + '?q')
                    if kk in model:
                        if _ck(got) != _ck(model[kk]):
                            return False
                    elif got is not KLONG_UNDEFINED:
                        return False
                if _ck(K('#' + name)) != ("i", len(model)):
                    return False
                if i != n - 1:
                    continue
                got = K("{x}'" + name)
                want = [[a, b] for a, b in model.items()]
                if len(model) == 0:
                    if _ck(got) != []:
                        return False
                elif not _pairs_ok(got, model):
                    return False
            if i != n - 1:
                continue
            # the dictionary made from the literal is independent of every other evaluation of that literal
            if not _pairs_ok(K("{x}'mk()"), {1: 10, 2: 20}):
                return False
            if _ck(K('d2?1')) != _ck(model2[1]) or _ck(K('d2?2')) != ("i", 20):
                return False
            # two evaluations of the same literal site with no update in between are still two dictionaries
            K('d3::mk()'); K('d4::mk()'); K['v'] = vs[0]
            K('d3,9,v')
            if K('d4?9') is not KLONG_UNDEFINED or _ck(K('#d4')) != ("i", 2) or _ck(K('d3?9')) != _ck(vs[0]):
                return False
            if not _pairs_ok(K("{x}'mk2(v)"), {1: 10, 2: 20}):
                return False
    except Exception as e:
        if type(e).__name__ == "OutsideModel":
            cut(str(e)[:60]); return True
        raise
    return True


def bounds(tier):
    q = tier == "quick"
    return {"steps": 3 if q else 5, "keys": ("integers and the mixed set (1, \"a\", :a)" if q else "4 keys per kind: integers, strings, symbols, mixed (1, \"a\", :a, 0ca)"),
            "values": "a distinct concrete tag per step in the long histories (values are opaque to the dictionary code); unbounded symbolic integers in the short ones", "operations": "add right/left, remove, add/remove through an alias, fresh literal, overwrite"}


def obligations(tier):
    q = tier == "quick"
    obs = []
    for ks in KEYSETS:
        # tagged concrete values, all four key kinds: every history of n operations over nkeys keys (split by the first operation)
        for f in range(7):
            obs.append({"name": "dict %s keys %d steps first=%d (tagged values)" % (ks, 3 if q else 4, f), "fn": "dict_seq",
                        "cfg": {"steps": 3 if q else 4, "keys": ks, "first": [f], "nkeys": 2 if q else 3, "tagged_values": True},
                        "timeout": 300 if q else 1800})
        # unbounded SYMBOLIC integer values (they flow through the real verbs under tracing): shorter histories
        if q:
            if ks in ("str", "sym"):
                continue
            for f in range(7):
                obs.append({"name": "dict %s keys 2 steps first=%d (symbolic values)" % (ks, f), "fn": "dict_seq",
                            "cfg": {"steps": 2, "keys": ks, "first": [f], "nkeys": 2}, "timeout": 400})
        else:
            for f in range(7):
                for g in range(7):
                    obs.append({"name": "dict %s keys 3 steps first=%d,%d (symbolic values)" % (ks, f, g), "fn": "dict_seq",
                                "cfg": {"steps": 3, "keys": ks, "first": [f, g], "nkeys": 2}, "timeout": 1800})
    return obs
