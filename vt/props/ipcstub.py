"""Stand-ins shared by the C13/C14 harnesses: futures, coroutine driver, connection provider."""
import klongpy.sys_fn_ipc as IPC


class Fut:
    """asyncio.Future contract: one transition out of 'pending'; set_exception wants an exception; awaitable"""
    def __init__(self):
        self.state = 'pending'; self.val = None; self.sets = 0

    def set_result(self, v):
        self.sets += 1
        if self.state != 'pending':
            raise RuntimeError("InvalidStateError")
        self.state = 'result'; self.val = v

    def set_exception(self, e):
        self.sets += 1
        if not isinstance(e, BaseException) and not (isinstance(e, type) and issubclass(e, BaseException)):
            raise TypeError("invalid exception object")
        if self.state != 'pending':
            raise RuntimeError("InvalidStateError")
        self.state = 'exc'; self.val = e

    def done(self):
        return self.state != 'pending'

    def result(self):
        if self.state == 'result':
            return self.val
        if self.state == 'exc':
            raise self.val
        raise RuntimeError("result of a pending future")

    def __await__(self):
        while self.state == 'pending':
            yield self
        return self.result()


def is_ch(e):
    return type(e).__module__.startswith('crosshair')


def step(coro):
    """advance a coroutine until it finishes or suspends: ('ret', v) | ('exc', e) | ('susp', what)"""
    try:
        w = coro.send(None)
    except StopIteration as s:
        return ('ret', s.value)
    except Exception as e:
        return ('exc', e)
    return ('susp', w)


class HalfOpenWriter:
    """a transport whose peer has gone but which still accepts writes (a half-closed TCP connection does): the real providers keep
    exactly such a StreamWriter in their .writer attribute until close()"""
    def __init__(self):
        self.data = []

    def write(self, b):
        self.data.append(b)

    async def drain(self):
        return None

    def is_closing(self):
        return False

    def close(self):
        pass

    async def wait_closed(self):
        return None


class Prov:
    def __init__(self, open_=True):
        self.open = open_; self.closed = 0
        self.reader = "reader"; self.writer = HalfOpenWriter()      # like HostPortConnectionProvider / ReaderWriterConnectionProvider

    def is_open(self):
        return self.open

    async def connect(self):
        if not self.open:
            raise IPC.KlongIPCCreateConnectionException()
        return "reader", "writer"

    async def close(self):
        self.open = False; self.closed += 1

    def __str__(self):
        return "prov"


class Loop:
    def create_future(self):
        return Fut()

    def call_soon_threadsafe(self, fn, *a):
        return fn(*a)


class NoLog:
    """logging with empty bodies: log text/time stamps are not the subject (and logging reads time.time())"""
    @staticmethod
    def info(*a, **k): pass
    warning = error = debug = exception = info


_saved = {}


_ABSENT = object()


def patch(**kw):
    kw.setdefault("logging", NoLog)
    for k, v in kw.items():
        if k not in _saved:
            _saved[k] = getattr(IPC, k, _ABSENT)       # a name the module takes from builtins (bytearray, bytes) can be shadowed
        setattr(IPC, k, v)


def unpatch():
    for k, v in _saved.items():
        if v is _ABSENT:
            if hasattr(IPC, k):
                delattr(IPC, k)
        else:
            setattr(IPC, k, v)
    _saved.clear()
