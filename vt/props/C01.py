"""C01 - primitive verbs return what the Klong reference prescribes.

Real code executed symbolically: every eval_monad_* / eval_dyad_* reachable through the interpreter's own dispatch
tables (create_monad_functions / create_dyad_functions), vec_fn, vec_fn2, rec_fn, the real kg_asarray, kg_equal,
kg_argsort, str_to_chr_arr - over the list-backed NumPy model (vt.symnp) in 'sym' mode and over real NumPy in replay.
Oracles: short loop-and-index functions written from the reference text in each verb's docstring.
"""
from typing import List
from vt.world import enter, verdict, cfg, CFG, pick, cut
from vt import npworld as W
from vt import kf
from klongpy.core import KGChar, KGSym, KLONG_UNDEFINED
import klongpy.dyads as _D
import klongpy.monads as _M

PROPERTY = "C01"
USES_SYMNP = True
K = W.interpreter()
VD = K._vd
VM = K._vm
FUNCTIONS = sorted({"klongpy.dyads." + n for n in dir(_D) if n.startswith("eval_dyad_")} |
                   {"klongpy.monads." + n for n in dir(_M) if n.startswith("eval_monad_")}) + \
    ["klongpy.backends.base.BackendProvider.vec_fn", "klongpy.backends.base.BackendProvider.vec_fn2",
     "klongpy.backends.base.BackendProvider.rec_fn", "klongpy.backends.base.BackendProvider.kg_equal",
     "klongpy.backends.numpy_backend.NumpyBackendProvider.kg_asarray", "klongpy.writer.kg_argsort"]
ASSUMPTIONS = [
    "NumPy = vt.symnp (list-backed model of the NumPy surface klongpy uses), validated by the conformance gate on the repository's "
    "own 1400+ suite expressions and by replaying every counterexample and every twin witness on real NumPy",
    "integers are mathematical (z3 Int): int64 wrap-around is outside the claim",
    "reals appear only as concrete values that exercise the integer/real kind rules",
    "oracles are written from the verb docstrings; operand classes on which the reference is silent are excluded by precondition",
]
OUTSIDE = ["torch backend", "IEEE reals beyond the concrete kind probes", "int64 overflow", "$ and :$ on arbitrary text (C11)",
           "grade with equal keys (tie order is not specified by the reference)", "gradient verbs (C06/C07)"]

LETTERS = "cabfdgeh"        # NOT in alphabetical order: a verb that sorts where it should keep the order of appearance shows


# ======================================================================================= reference (from the docstrings)
def ref_take(a, b):
    n = len(b)
    if n == 0:
        return b
    if a >= 0:
        return [b[i % n] for i in range(a)]
    k = -a
    return [b[(i - k) % n] for i in range(k)]


def ref_drop(a, b):
    n = len(b)
    if a >= 0:
        return [b[i] for i in range(a, n)] if a < n else []
    k = n + a
    return [b[i] for i in range(k)] if k > 0 else []


def ref_rotate(a, b):
    n = len(b)
    if n == 0:
        return b
    return [b[(i - a) % n] for i in range(n)]


def ref_split(a, b):
    n = len(b)
    if n == 0:
        return []
    sizes = a if isinstance(a, list) else [a]
    out = []; q = 0; p = 0
    while q < n:
        out.append([b[i] for i in range(q, min(n, q + sizes[p]))])
        q += sizes[p]
        p = (p + 1) % len(sizes)
    return out


def ref_cut(a, b):
    pos = a if isinstance(a, list) else [a]
    n = len(b)
    out = []; prev = 0
    for p in pos:
        out.append([b[i] for i in range(prev, p)])
        prev = p
    out.append([b[i] for i in range(prev, n)])
    return out


def ref_reshape_atom(a, b):
    n = len(b)
    return [b[i % n] for i in range(a)]


def ref_reshape_2(r, c, b):
    n = len(b)
    return [[b[(i * c + j) % n] for j in range(c)] for i in range(r)]


def ref_find(b, x):
    return [i for i in range(len(b)) if b[i] == x]


def ref_amend(b, v, idx):
    r = list(b)
    for i in idx:
        r[i] = v
    return r


def ref_expand(a):
    out = []
    for i in range(len(a)):
        for _ in range(a[i]):
            out.append(i)
    return out


def ref_group(b):
    seen = []; groups = []
    for i in range(len(b)):
        for j in range(len(seen)):
            if seen[j] == b[i]:
                groups[j].append(i)
                break
        else:
            seen.append(b[i]); groups.append([i])
    return groups


def ref_range(b):
    out = []
    for x in b:
        if not any(x == y for y in out):
            out.append(x)
    return out


def _trunc_div(x, y):
    q = abs(x) // abs(y)
    return q if (x >= 0) == (y >= 0) else -q


SCALAR = {
    "+": lambda x, y: x + y, "-": lambda x, y: x - y, "*": lambda x, y: x * y,
    "|": lambda x, y: x if x >= y else y, "&": lambda x, y: x if x <= y else y,
    "<": lambda x, y: 1 if x < y else 0, ">": lambda x, y: 1 if x > y else 0, "=": lambda x, y: 1 if x == y else 0,
    "!": lambda x, y: x - y * _trunc_div(x, y), ":%": _trunc_div,
}


def ref_atomic2(f, a, b):
    """atom-to-list extension through any nesting depth"""
    la, lb = isinstance(a, list), isinstance(b, list)
    if la and lb:
        return [ref_atomic2(f, x, y) for x, y in zip(a, b)]
    if la:
        return [ref_atomic2(f, x, b) for x in a]
    if lb:
        return [ref_atomic2(f, a, y) for y in b]
    return f(a, b)


def ref_atomic1(f, a):
    return [ref_atomic1(f, x) for x in a] if isinstance(a, list) else f(a)


# ======================================================================================= helpers
SMALL = [-2, -1, 0, 1, 2]


def _small(e):
    """index into SMALL; values outside are folded in (the domain is stated in the bounds)"""
    if e < -2 or e > 2:
        return 2
    return e + 2


def _s(n):
    return LETTERS[:n]


def _chars(s):
    return [KGChar(c) for c in s]


def _same(got, want):
    """structure, elements and kind"""
    return W.canon(got) == W.canon(want)


def _str_or_chars(want_chars):
    return "".join(want_chars)


def _outside(e):
    if type(e).__name__ == "OutsideModel":
        cut("OutsideModel: " + str(e)[:60])
        return True
    return False


# ======================================================================================= family 1: count x vector
def dy_count_vec(a: int, b: List[int]) -> bool:
    """
    pre: len(b) <= CFG['n']
    pre: -CFG['amax'] <= a <= CFG['amax']
    post: _
    """
    enter()
    verb = CFG["verb"]; mode = CFG.get("mode", "ints")
    b = list(b)
    n = len(b)
    if mode == "str":
        operand = _s(n); elems = _chars(operand)
    else:
        operand = W.arr(b); elems = b
    f = VD[verb]
    try:
        if verb == "#":
            if n == 0 and a != 0:
                return True                      # reference silent on cycling through nothing
            want = ref_take(a, elems)
        elif verb == "_":
            want = ref_drop(a, elems)
        elif verb == ":+":
            want = ref_rotate(a, elems)
        elif verb == ":#":
            if a < 1:
                return True
            want = ref_split(a, elems)
        elif verb == ":_":
            if a < 0 or a > n or n == 0:
                return True
            want = ref_cut(a, elems)
        elif verb == ":^":
            if a < 0 or n == 0:
                return True
            if a == 0:
                want = elems
            else:
                want = ref_reshape_atom(a, elems)
        else:
            raise RuntimeError("verb?")
        got = f(a, operand)
    except Exception as e:
        if _outside(e):
            return True
        raise
    if mode == "str":
        if want and isinstance(want[0], list) or (verb in (":#", ":_")):
            want = ["".join(x) for x in want]
        else:
            want = "".join(want)
    return verdict(_same(got, want))


def dy_vec_atom(b: List[int], x: int, i: int, j: int) -> bool:
    """
    pre: len(b) <= CFG['n']
    post: _
    """
    # verbs whose left operand is the vector: b@i  b@[i j]  b?x  b:=x,i  b:=x,[i j]  b,x  x,b  b,b
    enter()
    verb = CFG["verb"]; mode = CFG.get("mode", "ints")
    b = list(b); n = len(b)
    if mode == "str":
        operand = _s(n); elems = _chars(operand)
        xv = KGChar(LETTERS[x % 3]) if True else None
    else:
        operand = W.arr(b); elems = b; xv = x
    try:
        if verb == "@":
            if not (0 <= i < n):
                return True
            got = VD["@"](operand, i); want = elems[i]
        elif verb == "@l":
            if not (0 <= i < n and 0 <= j < n):
                return True
            got = VD["@"](operand, W.arr([i, j, i])); want = [elems[i], elems[j], elems[i]]
            if mode == "str":
                want = "".join(want)
        elif verb == "?":
            got = VD["?"](operand, xv); want = ref_find(elems, xv)
        elif verb == ":=":
            if not (0 <= i < n):
                return True
            got = VD[":="](operand, W.arr([xv, i]) if mode == "ints" else W.arr([xv, i])); want = ref_amend(elems, xv, [i])
            if mode == "str":
                want = "".join(want)
        elif verb == ":=s":
            # a value of ANOTHER kind than the vector's elements (a string into integers, an integer into characters' list form)
            if not (0 <= i < n) or mode == "str":
                return True
            got = VD[":="](operand, W.arr(["zz", i])); want = ref_amend(elems, "zz", [i])
        elif verb == ":=l":
            if not (0 <= i < n and 0 <= j < n):
                return True
            got = VD[":="](operand, W.arr([xv, i, j])); want = ref_amend(elems, xv, [i, j])
            if mode == "str":
                want = "".join(want)
        elif verb == ",r":
            got = VD[","](operand, xv); want = elems + [xv]
            if mode == "str":
                want = "".join(want)
        elif verb == ",l":
            got = VD[","](xv, operand); want = [xv] + elems
            if mode == "str":
                want = "".join(want)
        elif verb == ",,":
            got = VD[","](operand, operand); want = elems + elems
            if mode == "str":
                want = "".join(want)
        elif verb in (",e", ",el", ",p"):
            # joining with a list of ANOTHER length: the empty list [] (a real-typed empty array in NumPy), the empty result of a
            # Find, a proper prefix of the vector.  Elements keep their value AND their integer/character kind.
            if mode == "str":
                other = "" if verb != ",p" else operand[:i % (n + 1)]
                oel = list(_chars(other))
            else:
                other = W.arr([]) if verb != ",p" else W.arr(b[:i % (n + 1)])
                if verb == ",e" and j > 0:
                    other = VD["?"](W.arr([1, 2]), 7)              # an empty list that comes out of a verb
                oel = [] if verb != ",p" else b[:i % (n + 1)]
            if verb == ",el":
                got = VD[","](other, operand); want = oel + elems
            else:
                got = VD[","](operand, other); want = elems + oel
            if mode == "str":
                want = "".join(want)
        elif verb == "~":
            c = list(b)
            if n > 0 and 0 <= i < n:
                c[i] = c[i] + (1 if j > 0 else 0)
                same = not (j > 0)
            else:
                same = True
            got = VD["~"](operand if mode == "ints" else W.arr(b), W.arr(c)); want = 1 if same else 0
            return verdict(got == want)
        else:
            raise RuntimeError("verb?")
    except Exception as e:
        if _outside(e):
            return True
        raise
    return verdict(_same(got, want))


def dy_list_vec(a0: int, a1: int, a2: int, b: List[int]) -> bool:
    """
    pre: len(b) <= CFG['n'] and len(b) >= 1
    pre: 0 <= a0 <= 4 and 0 <= a1 <= 4 and 0 <= a2 <= 4
    post: _
    """
    # list-valued left operands:  [a0 a1]:#b   [a0 a1 a2]:_b   [a0 a1]:^b
    enter()
    verb = CFG["verb"]; mode = CFG.get("mode", "ints")
    b = list(b); n = len(b)
    if mode == "str":
        operand = _s(n); elems = _chars(operand)
    else:
        operand = W.arr(b); elems = b
    try:
        if verb == ":#":
            if a0 < 1 or a1 < 1:
                return True
            got = VD[":#"](W.arr([a0, a1]), operand); want = ref_split([a0, a1], elems)
        elif verb == ":_":
            if not (a0 <= a1 <= a2 <= n):
                return True
            got = VD[":_"](W.arr([a0, a1, a2]), operand); want = ref_cut([a0, a1, a2], elems)
        elif verb == ":^":
            if a0 < 1 or a1 < 1:
                return True
            got = VD[":^"](W.arr([a0, a1]), operand); want = ref_reshape_2(a0, a1, elems)
        else:
            raise RuntimeError("verb?")
    except Exception as e:
        if _outside(e):
            return True
        raise
    if mode == "str":
        want = ["".join(x) for x in want]
    return verdict(_same(got, want))


# ======================================================================================= family 2: monads on vectors
def mo_vec(b: List[int], x: int) -> bool:
    """
    pre: len(b) <= CFG['n']
    post: _
    """
    enter()
    verb = CFG["verb"]; mode = CFG.get("mode", "ints")
    b = list(b); n = len(b)
    if verb in ("_", "?") and mode == "ints":
        # floor converts through float and Range keys on str(x): keep the elements in a small concrete domain
        b = [pick(SMALL, _small(e)) for e in b]
    if mode == "str":
        operand = _s(n); elems = _chars(operand)
    else:
        operand = W.arr(b); elems = b
    f = VM[verb]
    try:
        if verb == "|":
            want = [elems[n - 1 - i] for i in range(n)]
            got = f(operand)
            if mode == "str":
                want = "".join(want)
        elif verb == "*":
            got = f(operand)
            want = (elems[0] if n > 0 else elems) if mode == "ints" else (elems[0] if n > 0 else "")
        elif verb == "#":
            got = f(operand); want = n
        elif verb == "@":
            got = f(operand); want = 1 if n == 0 else 0
        elif verb == ",":
            got = f(operand); want = [elems] if mode == "ints" else [operand]
        elif verb == "^":
            if n == 0:
                return True
            got = f(operand); want = [n]
        elif verb == "~":
            if n == 0:
                got = f(operand); want = 1
            else:
                got = f(operand); want = [1 if e == 0 else 0 for e in elems]
        elif verb == "-":
            got = f(operand); want = [-e for e in elems]
            if n == 0:
                return True
        elif verb == "_":
            got = f(operand); want = list(elems)
            if n == 0:
                return True
        elif verb == "&":
            for e in elems:
                if e < 0 or e > 3:
                    return True
            if n == 0:
                return True
            got = f(operand); want = ref_expand(elems)
        elif verb == "=":
            got = f(operand); want = ref_group(elems)
        elif verb == "?":
            got = f(operand); want = ref_range(elems)
            if mode == "str":
                want = "".join(want)
        elif verb in ("<", ">"):
            for p in range(n):
                for q in range(p + 1, n):
                    if elems[p] == elems[q]:
                        return True          # tie order is not specified by the reference
            got = f(operand)
            g = W.canon(got)
            if n == 0:
                return verdict(g == [])
            idx = [t[1] for t in g]
            if sorted(idx) != list(range(n)):
                return verdict(False)
            for p in range(n - 1):
                if verb == "<" and not (elems[idx[p]] < elems[idx[p + 1]]):
                    return verdict(False)
                if verb == ">" and not (elems[idx[p]] > elems[idx[p + 1]]):
                    return verdict(False)
            return verdict(all(t[0] == "i" for t in g))
        elif verb == "$":
            if n == 0:
                return True
            for e in elems:
                if e < -2 or e > 11:
                    return True
            got = f(operand); want = [str(e) for e in elems]
        else:
            raise RuntimeError("verb?")
    except Exception as e:
        if _outside(e):
            return True
        raise
    return verdict(_same(got, want))


def mo_atom(x: int) -> bool:
    """
    pre: -6 <= x <= 200
    post: _
    """
    enter()
    verb = CFG["verb"]
    f = VM[verb]
    if verb == "!":
        if x < 0 or x > 6:
            return True
        return verdict(_same(f(x), list(range(x))))
    if verb == "&":
        if x < 0 or x > 6:
            return True
        return verdict(_same(f(x), [0] * x))
    if verb == ":#":
        if x < 32 or x > 126:
            return True
        return verdict(_same(f(x), KGChar(chr(x))))
    if verb == "#":
        return verdict(_same(f(x), x if x >= 0 else -x) and _same(f(KGChar("A")), 65))
    if verb == "|":
        return verdict(_same(f(x), x))
    if verb == "*":
        return verdict(_same(f(x), x))
    if verb == "@":
        return verdict(_same(f(x), 1))
    if verb == ",":
        return verdict(_same(f(x), [x]))
    if verb == "^":
        return verdict(_same(f(x), 0))
    if verb == "~":
        return verdict(_same(f(x), 1 if x == 0 else 0))
    if verb == "-":
        return verdict(_same(f(x), -x))
    if verb == "_":
        x = pick(SMALL, _small(x))
        return verdict(_same(f(x), x) and _same(f(1.5), 1) and _same(f(-1.5), -2) and _same(f(2.0), 2))
    if verb == "%":
        if x == 0:
            return verdict(f(x) is KLONG_UNDEFINED)
        if x not in (1, 2, 4, -2, 5):
            return True
        x = pick([1, 2, 4, -2, 5], [1, 2, 4, -2, 5].index(x))
        return verdict(_same(f(x), 1.0 / x))
    if verb == "$":
        if x < -3 or x > 12:
            return True
        return verdict(_same(f(x), str(x)) and _same(f(KGSym("foo")), ":foo") and _same(f("test"), "test")
                       and _same(f(KGChar("x")), "x"))
    if verb == ":_":
        return verdict(_same(f(x), 0) and _same(f(KLONG_UNDEFINED), 1))
    raise RuntimeError("verb?")


# ======================================================================================= family 3: atomic dyads on templates
TEMPLATES = {
    # name -> (builder from leaf pool, number of leaves)
    "atom": (lambda p: p[0], 1),
    "v1": (lambda p: [p[0]], 1),
    "v2": (lambda p: [p[0], p[1]], 2),
    "v3": (lambda p: [p[0], p[1], p[2]], 3),
    "nest": (lambda p: [p[0], [p[1], p[2]]], 3),
    "ragged": (lambda p: [[p[0]], [p[1], p[2]]], 3),
    "m22": (lambda p: [[p[0], p[1]], [p[2], p[3]]], 4),
    "deep": (lambda p: [p[0], [p[1], [p[2]]]], 3),
}
PAIRS = [("atom", "atom"), ("atom", "v2"), ("v3", "atom"), ("v2", "v2"), ("atom", "nest"), ("nest", "nest"), ("nest", "atom"),
         ("ragged", "ragged"), ("atom", "ragged"), ("m22", "m22"), ("m22", "atom"), ("atom", "m22"), ("deep", "deep"), ("atom", "deep"),
         ("v1", "v1"), ("v1", "atom")]


def atomic2(p0: int, p1: int, p2: int, p3: int, q0: int, q1: int, q2: int, q3: int) -> bool:
    """
    post: _
    """
    enter()
    verb = CFG["verb"]; ta, tb = CFG["ta"], CFG["tb"]
    if verb == ":%":
        # integer divide goes through a real quotient: small concrete operands (solver-enumerated)
        DOM = [-7, -2, 1, 3, 5]
        na, nb = TEMPLATES[ta][1], TEMPLATES[tb][1]
        p0, p1, p2, p3 = [pick(DOM, v % 5) if i < na else 1 for i, v in enumerate((p0, p1, p2, p3))]
        q0, q1, q2, q3 = [pick(DOM, v % 5) if i < nb else 1 for i, v in enumerate((q0, q1, q2, q3))]
    if verb in ("!", ":%"):
        for y in [q0, q1, q2, q3][:TEMPLATES[tb][1]]:
            if y == 0:
                return True                      # division by zero: separate obligation
        lim = CFG.get("lim", 50)
        for v in [p0, p1, p2, p3][:TEMPLATES[ta][1]] + [q0, q1, q2, q3][:TEMPLATES[tb][1]]:
            if v < -lim or v > lim:
                return True
    A = TEMPLATES[ta][0]([p0, p1, p2, p3]); B = TEMPLATES[tb][0]([q0, q1, q2, q3])
    a = W.arr(A) if isinstance(A, list) else A
    b = W.arr(B) if isinstance(B, list) else B
    try:
        got = VD[verb](a, b)
    except Exception as e:
        if _outside(e):
            return True
        raise
    want = ref_atomic2(SCALAR[verb], A, B)
    return verdict(_same(got, want))


def atomic1(p0: int, p1: int, p2: int, p3: int) -> bool:
    """
    post: _
    """
    enter()
    verb = CFG["verb"]; ta = CFG["ta"]
    if verb == "_":
        p0, p1, p2, p3 = [pick([-1, 0, 2], v % 3) if i < TEMPLATES[ta][1] else 0 for i, v in enumerate((p0, p1, p2, p3))]
    A = TEMPLATES[ta][0]([p0, p1, p2, p3])
    a = W.arr(A) if isinstance(A, list) else A
    fs = {"-": lambda x: -x, "~": lambda x: 1 if x == 0 else 0, "_": lambda x: x, "#": None}
    try:
        got = VM[verb](a)
    except Exception as e:
        if _outside(e):
            return True
        raise
    want = ref_atomic1(fs[verb], A)
    return verdict(_same(got, want))


# ======================================================================================= family 4: kind rules (concrete reals)
def kinds(x: int, y: int, e: int) -> bool:
    """
    pre: -12 <= x <= 12 and -12 <= y <= 12
    pre: 0 <= e <= 4
    post: _
    """
    enter()
    which = CFG["which"]
    if which == "divide":
        # % always yields a real, even when exact; x%0 is undefined
        xs = list(range(-12, 13))
        x = pick(xs, x + 12); y = pick(xs, y + 12)
        if y == 0:
            return verdict(VD["%"](x, y) is KLONG_UNDEFINED and VD[":%"](x, y) is KLONG_UNDEFINED)
        got = VD["%"](x, y)
        return verdict(W.canon(got) == ("f", x / y))
    if which == "intdiv":
        # a = (b*a:%b) + a!b, both integers, remainder has the sign of a and is smaller than |b|
        if y == 0:
            return True
        xs = list(range(-12, 13))
        x = pick(xs, x + 12); y = pick(xs, y + 12)
        q = VD[":%"](x, y); r = VD["!"](x, y)
        cq, cr = W.canon(q), W.canon(r)
        if cq[0] != "i" or cr[0] != "i":
            return verdict(False)
        ay = y if y > 0 else -y
        return verdict(x == y * cq[1] + cr[1] and (cr[1] == 0 or (cr[1] > 0) == (x > 0)) and -ay < cr[1] < ay)
    if which == "power":
        # integer when whole, real otherwise
        xs = list(range(-4, 5))
        if x < -4 or x > 4:
            return True
        x = pick(xs, x + 4)
        ex = pick([0, 1, 2, 3, -1], e)
        if x == 0 and ex < 0:
            return True
        got = W.canon(VD["^"](x, ex))
        exact = x ** ex
        if ex >= 0 or x in (1, -1):
            return verdict(got == ("i", int(exact)))
        return verdict(got == ("f", float(exact)))
    if which == "floor":
        vals = [(-2.5, -3), (-2.0, -2), (-0.5, -1), (0.0, 0), (0.5, 0), (1.0, 1), (2.75, 2)]
        v, w = pick(vals, e + (2 if y > 0 else 0))
        return verdict(W.canon(VM["_"](v)) == ("i", w) and W.canon(VM["_"](W.arr([v, 1.5]))) == [("i", w), ("i", 1)])
    if which == "minmax-real":
        x = pick(list(range(-12, 13)), x + 12)
        got1 = W.canon(VD["|"](x, 1.5)); got2 = W.canon(VD["&"](x, 1.5))
        return verdict(got1 == ("f", float(x) if x > 1.5 else 1.5) and got2 == ("f", float(x) if x < 1.5 else 1.5))
    raise RuntimeError("which?")


# ======================================================================================= family 5: matrices
def matrix(p0: int, p1: int, p2: int, p3: int, p4: int, p5: int, a: int, i: int, j: int) -> bool:
    """
    pre: -4 <= a <= 4
    post: _
    """
    enter()
    verb = CFG["verb"]; shape = CFG.get("shape", "23")
    p = [p0, p1, p2, p3, p4, p5]
    if shape == "23":
        rows = [[p0, p1, p2], [p3, p4, p5]]
    elif shape == "32":
        rows = [[p0, p1], [p2, p3], [p4, p5]]
    else:
        rows = [[p0, p1], [p2, p3]]
    R, C = len(rows), len(rows[0])
    m = W.arr(rows)
    try:
        if verb == "+":
            got = VM["+"](m); want = [[rows[r][c] for r in range(R)] for c in range(C)]
        elif verb == "^":
            got = VM["^"](m); want = [R, C]
        elif verb == "|":
            got = VM["|"](m); want = [rows[R - 1 - r] for r in range(R)]
        elif verb == "*":
            got = VM["*"](m); want = rows[0]
        elif verb == "#":
            got = VM["#"](m); want = R
        elif verb == ":+":
            got = VD[":+"](a, m); want = ref_rotate(a, rows)
        elif verb == "#d":
            got = VD["#"](a, m); want = ref_take(a, rows)
        elif verb == "_d":
            got = VD["_"](a, m); want = ref_drop(a, rows)
        elif verb == ":@":
            if not (0 <= i < R and 0 <= j < C):
                return True
            got = VD[":@"](m, W.arr([i, j])); want = rows[i][j]
        elif verb == ":-":
            if not (0 <= i < R and 0 <= j < C):
                return True
            got = VD[":-"](m, W.arr([a, i, j]))
            want = [[(a if (r == i and c == j) else rows[r][c]) for c in range(C)] for r in range(R)]
            if W.canon(m) != W.canon(rows):
                return verdict(False)            # the operand itself must be left alone
        elif verb == "@":
            if not (0 <= i < R):
                return True
            got = VD["@"](m, i); want = rows[i]
        elif verb == ",":
            got = VD[","](m, m); want = rows + rows
        elif verb == ":^":
            got = VD[":^"](W.arr([C, R]), m)
            flat = [x for r in rows for x in r]
            want = ref_reshape_2(C, R, flat)
        elif verb == "-":
            got = VM["-"](m); want = [[-x for x in r] for r in rows]
        elif verb == "+a":
            got = VD["+"](m, a); want = [[x + a for x in r] for r in rows]
        # ---- a matrix is a LIST OF ROWS for the verbs that look at whole elements
        elif verb == "=":
            got = VM["="](m); want = ref_group(rows)
        elif verb == "?m":
            got = VM["?"](m); want = ref_range(rows)
        elif verb == "?a":
            got = VD["?"](m, a); want = []                          # an atom is never an element of a list of rows
        elif verb == "?r":
            if not (0 <= i < R):
                return True
            got = VD["?"](m, W.arr(list(rows[i]))); want = ref_find(rows, rows[i])
        elif verb in ("<", ">"):
            if any(rows[x] == rows[y] for x in range(R) for y in range(x + 1, R)):
                return True                                         # the order of equal elements is outside the claim
            got = VM[verb](m); want = sorted(range(R), key=lambda ix: rows[ix], reverse=(verb == ">"))
        elif verb in ("^rag1", "^rag2", "^rag3"):
            # Shape of lists that are not rectangular: only the dimensions shared by all elements count (reference: ^[1 [2]] --> [2])
            t = {"^rag1": [p0, [p1]], "^rag2": [[p0], [p1, p2]], "^rag3": [[[p0], [p1, p2]], [[p3], [p4, p5]]]}[verb]
            got = VM["^"](W.arr(t)); want = {"^rag1": [2], "^rag2": [2], "^rag3": [2, 2]}[verb]
        elif verb == ":=":
            if not (0 <= i < R):
                return True
            got = VD[":="](m, W.arr([a, i])); want = [(a if r == i else rows[r]) for r in range(R)]
            if W.canon(m) != W.canon(rows):
                return verdict(False)
        else:
            raise RuntimeError("verb?")
    except Exception as e:
        if _outside(e):
            return True
        raise
    return verdict(_same(got, want))


# ======================================================================================= obligations
def bounds(tier):
    q = tier == "quick"
    return {"vector length": "<= %d" % (3 if q else 5), "counts": "|a| <= %d" % (8 if q else 13),
            "elements": "unbounded integers (z3 Int) unless a range is stated in the harness",
            "nesting templates": sorted(TEMPLATES), "matrix shapes": ["2x2", "2x3", "3x2"],
            "strings": "one string per length 0..n over distinct letters (structural verbs do not look at elements)"}


def obligations(tier):
    q = tier == "quick"
    n = 3 if q else 5
    amax = 2 * n + 2 if q else 2 * n + 3
    T_ = 120 if q else 900
    obs = []

    def add(name, fn, cfg_, t=T_):
        obs.append({"name": name, "fn": fn, "cfg": cfg_, "timeout": t})
    for mode in ("ints", "str"):
        for v in ("#", "_", ":+", ":#", ":_", ":^"):
            if mode == "str" and v == ":^":
                continue
            add("a%sb count x %s" % (v, mode), "dy_count_vec", {"verb": v, "mode": mode, "n": n, "amax": amax})
        for v in ("@", "@l", "?", ":=", ":=l", ",r", ",l", ",,", ",e", ",el", ",p") + ((":=s",) if mode == "ints" else ()):
            add("%s vector(%s) x atom" % (v, mode), "dy_vec_atom", {"verb": v, "mode": mode, "n": n})
        for v in (":#", ":_", ":^"):
            if mode == "str" and v == ":^":
                continue
            add("[..]%sb list x %s" % (v, mode), "dy_list_vec", {"verb": v, "mode": mode, "n": n if q else 4})
    add("~ match vectors", "dy_vec_atom", {"verb": "~", "mode": "ints", "n": n})
    for v in ("|", "*", "#", "@", ",", "^", "~", "-", "_", "&", "=", "?", "<", ">", "$"):
        add("monad %s on int vector" % v, "mo_vec", {"verb": v, "mode": "ints", "n": n if v not in ("<", ">", "=") else min(n, 4)})
    for v in ("|", "*", "#", "@", ",", "^", "?", "="):
        add("monad %s on string" % v, "mo_vec", {"verb": v, "mode": "str", "n": n})
    for v in ("!", "&", ":#", "#", "|", "*", "@", ",", "^", "~", "-", "_", "%", "$", ":_"):
        add("monad %s on atom" % v, "mo_atom", {"verb": v})
    pairs = PAIRS if not q else [("atom", "atom"), ("atom", "v2"), ("v3", "atom"), ("v2", "v2"), ("nest", "nest"), ("atom", "nest"),
                                 ("ragged", "ragged"), ("m22", "m22"), ("m22", "atom")]
    for v in ("+", "-", "*", "|", "&", "<", ">", "=", "!", ":%"):
        for (ta, tb) in pairs:
            if v in ("!", ":%") and q and (ta, tb) not in (("atom", "atom"), ("v2", "v2"), ("atom", "nest")):
                continue
            add("atomic %s %s x %s" % (v, ta, tb), "atomic2", {"verb": v, "ta": ta, "tb": tb, "lim": 20 if q else 50})
    for v in ("-", "~", "_"):
        for ta in (["v2", "nest", "m22"] if q else sorted(TEMPLATES)):
            add("atomic monad %s %s" % (v, ta), "atomic1", {"verb": v, "ta": ta})
    for w in ("divide", "intdiv", "power", "floor", "minmax-real"):
        add("kind rule %s" % w, "kinds", {"which": w})
    for v in ("+", "^", "|", "*", "#", ":+", "#d", "_d", ":@", ":-", "@", ",", ":^", "-", "+a", "=", "?m", "?a", "?r", "<", ">", ":=", "^rag1", "^rag2", "^rag3"):
        for sh in ((["23"] if v not in ("=", "?m", "<", ">") else ["32"]) if q else ["23", "32", "22"]):
            add("matrix %s shape %s" % (v, sh), "matrix", {"verb": v, "shape": sh})
    return obs
