"""C11 - readable output reads back to the same value (.w/.rs, Format/Form).

Real code executed symbolically: writer.kg_write and every kg_write_*, parser.kg_read/read_num/read_char/read_string/
read_sym/read_list/list_to_dict, kg_read_array, sys_fn.eval_sys_read_string (.rs), monads.eval_monad_format ($),
dyads.eval_dyad_form (:$).
"""
from typing import List
from vt.world import enter, verdict, cfg, CFG, pick, cut
from vt import npworld as W
from vt import kf
from klongpy.core import KGChar, KGSym, KLONG_UNDEFINED, kg_write
import klongpy.sys_fn as SF

PROPERTY = "C11"
USES_SYMNP = True
K = W.interpreter()
BK = K._backend
FUNCTIONS = ["klongpy.writer.kg_write", "klongpy.writer.kg_write_string", "klongpy.writer.kg_write_char", "klongpy.writer.kg_write_integer",
             "klongpy.writer.kg_write_float", "klongpy.writer.kg_write_symbol", "klongpy.writer.kg_write_list", "klongpy.writer.kg_write_dict",
             "klongpy.parser.kg_read", "klongpy.parser.read_num", "klongpy.parser.read_char", "klongpy.parser.read_string",
             "klongpy.parser.read_sym", "klongpy.parser.read_list", "klongpy.parser.list_to_dict", "klongpy.parser.kg_read_array",
             "klongpy.sys_fn.eval_sys_read_string", "klongpy.monads.eval_monad_format", "klongpy.dyads.eval_dyad_form"]
ASSUMPTIONS = [
    "strings are CrossHair symbolic str (any Unicode content) up to the stated length; characters and symbol names come from "
    "representative alphabets (quote, newline, blank, bracket, colon, letter, digit, non-ASCII); integers come from a table of digit shapes",
    "reals are a fixed table of awkward doubles (tiny, huge, negative, repr with exponent); float(repr(x)) == x and int(str(n)) == n are Python's guarantees",
    "NumPy = vt.symnp for the list -> array step (conformance-gated; witnesses replayed on real NumPy)",
]
OUTSIDE = ["inf / nan (listed known finding)", "symbols whose names are not symbol syntax", "functions and channels (not data)",
           "dictionaries nested inside lists"]

CHARS = ['"', "\n", " ", "[", "]", ":", "a", "0", "c", "-", ";", "{", "é", "\\", "'", "."]
SYM1 = ["a", "z", "."]
SYMR = ["", "a", "1", ".", "ab", "a1"]
INTS = [0, 1, -1, 7, -9, 10, -10, 42, 99, 100, -100, 101, 12345, -12345, 999999, -1000000,
        # extreme values: beyond the exactly representable doubles (2^53), and the ends of the 64-bit range
        9007199254740993, -9007199254740993, 1000000000000000001, 9223372036854775807, -9223372036854775808]
REALS = [0.5, -0.5, 1e-07, 1e+100, 1.5e-10, 123.456, 1e+16, 0.30000000000000004, 5e-324, 1.7976931348623157e+308, -2.5e-05, 100.0, 3.0]


def _roundtrip(v):
    """write v readably, read the text back with .rs, compare value, kind and the second writing"""
    text = kg_write(v, BK, display=False)
    K['t'] = text
    back = K('.rs(t)')
    if not BK.kg_equal(v, back):
        return False
    if W.canon(back) != W.canon(v):
        return False
    return kg_write(back, BK, display=False) == text


def rt_string(s: str) -> bool:
    """
    pre: len(s) <= CFG['n']
    post: _
    """
    enter()
    return verdict(_roundtrip(s))


def rt_string_in_list(s: str, u: str, n: int) -> bool:
    """
    pre: len(s) <= CFG['n'] and len(u) <= 1
    pre: -9 <= n <= 9
    post: _
    """
    enter()
    v = W.arr([s, n, [u, s]])
    return verdict(_roundtrip(v))


def rt_char(ci: int, cj: int) -> bool:
    """
    pre: 0 <= ci < len(CHARS) and 0 <= cj < len(CHARS)
    post: _
    """
    enter()
    c = KGChar(pick(CHARS, ci)); d = KGChar(pick(CHARS, cj))
    return verdict(_roundtrip(c) and _roundtrip(W.arr([c, d])) and _roundtrip(W.arr([c, 1, [d]])))


def rt_int(n: int, m: int) -> bool:
    """
    pre: 0 <= n < len(INTS) and 0 <= m < len(INTS)
    post: _
    """
    # integers come from a table of digit shapes (sign, digit count, trailing zeros): int -> text of a *symbolic* integer
    # drags z3 into string/integer conversion and does not finish
    enter()
    n = pick(INTS, n); m = pick(INTS, m)
    return verdict(_roundtrip(n) and _roundtrip(W.arr([n, m])) and _roundtrip(W.arr([m, [n, m], n])))


def rt_real(i: int, j: int) -> bool:
    """
    pre: 0 <= i < len(REALS) and 0 <= j < len(REALS)
    post: _
    """
    enter()
    x = pick(REALS, i); y = pick(REALS, j)
    return verdict(_roundtrip(x) and _roundtrip(-x) and _roundtrip(W.arr([x, -y])) and _roundtrip(W.arr([y, [x], 1.5])))


def rt_symbol(a: int, b: int, c: int) -> bool:
    """
    pre: 0 <= a < len(SYM1) and 0 <= b < len(SYMR) and 0 <= c < len(SYM1)
    post: _
    """
    enter()
    s1 = KGSym(pick(SYM1, a) + pick(SYMR, b)); s2 = KGSym(pick(SYM1, c))
    if str(s1) in (".",):
        return True
    return verdict(_roundtrip(s1) and _roundtrip(W.arr([s1, s2])) and _roundtrip(W.arr([1, s1, "x", [s2]])))


TEMPLATES = [
    lambda p, s: [],
    lambda p, s: [p[0]],
    lambda p, s: [p[0], p[1], p[2]],
    lambda p, s: [-1, p[0], -2],
    lambda p, s: [[], [p[0]], []],
    lambda p, s: [p[0], [p[1], [p[2], [p[0]]]]],
    lambda p, s: [[p[0], p[1]], [p[2], p[0]]],
    lambda p, s: [s, p[0], KGChar("]"), KGSym("k")],
    lambda p, s: [[s], "]", ["[", s]],
    lambda p, s: [1.5, p[0], [s, -0.25]],
    lambda p, s: ["", [""], s],
    lambda p, s: [KGChar('"'), s, KGChar(" ")],
]


def rt_list(p0: int, p1: int, p2: int, s: str, ti: int) -> bool:
    """
    pre: 0 <= ti < len(TEMPLATES) and ti == CFG.get('ti', ti)
    pre: len(s) <= 2
    pre: 0 <= p0 < 3 and p1 == 0 and p2 == 0
    post: _
    """
    enter()
    p0 = pick([0, -3, 1000], p0); p1 = -2; p2 = 17
    t = pick(TEMPLATES, ti)
    v = W.arr(t([p0, p1, p2], s))
    return verdict(_roundtrip(v))


def rt_dict(n: int, s: str, ki: int) -> bool:
    """
    pre: len(s) <= 2
    pre: 0 <= n < 4
    pre: 0 <= ki <= 3 and ki == CFG.get('ki', ki)
    post: _
    """
    enter()
    n = pick([0, -9, 42, -1000000], n)
    key = pick([1, "k", KGSym("k"), KGChar("k")], ki)
    d = {key: n, "s": s, 7: [n, s]}
    text = kg_write(d, BK, display=False)
    K['t'] = text
    back = K('.rs(t)')
    if not isinstance(back, dict) or len(back) != 3:
        return verdict(False)
    ok = W.canon(back[key]) == W.canon(n) and back["s"] == s and W.canon(back[7]) == W.canon([n, s])
    return verdict(ok and kg_write(back, BK, display=False) == text)


def form_format(n: int, s: str, ri: int, ci: int, a: int, b: int) -> bool:
    """
    pre: 0 <= n < len(INTS)
    pre: len(s) <= CFG['n']
    pre: 0 <= ri < len(REALS) and 0 <= ci < len(CHARS)
    pre: 0 <= a < len(SYM1) and 0 <= b < len(SYMR)
    post: _
    """
    # Form inverts Format:  x:$$x  matches x
    enter()
    which = CFG["which"]
    if which == "int":
        v = pick(INTS, n)
    elif which == "real":
        v = pick(REALS, ri)
    elif which == "char":
        v = KGChar(pick(CHARS, ci))
    elif which == "string":
        v = s
    else:
        v = KGSym(pick(SYM1, a) + pick(SYMR, b))
    K['v'] = v
    back = K('v:$$v')
    return verdict(BK.kg_equal(v, back) and W.canon(back) == W.canon(v))


def bounds(tier):
    q = tier == "quick"
    return {"strings": "any content, length <= %d (alone), <= %d inside lists" % (3 if q else 5, 2 if q else 3),
            "characters": CHARS, "integers": INTS, "reals": REALS, "symbols": "first char %s, rest %s" % (SYM1, SYMR),
            "list templates": len(TEMPLATES), "dictionaries": "3 entries, key kinds int/string/symbol/char"}


def obligations(tier):
    q = tier == "quick"
    T_ = 240 if q else 1200
    obs = [
        {"name": "string round trip", "fn": "rt_string", "cfg": {"n": 3 if q else 5}, "timeout": T_},
        {"name": "string inside lists", "fn": "rt_string_in_list", "cfg": {"n": 2 if q else 3}, "timeout": T_},
        {"name": "characters", "fn": "rt_char", "cfg": {}, "timeout": T_},
        {"name": "integers", "fn": "rt_int", "cfg": {}, "timeout": T_},
        {"name": "reals", "fn": "rt_real", "cfg": {}, "timeout": T_},
        {"name": "symbols", "fn": "rt_symbol", "cfg": {}, "timeout": T_},
    ]
    for ti in range(len(TEMPLATES)):
        obs.append({"name": "nested list template %d" % ti, "fn": "rt_list", "cfg": {"ti": ti}, "timeout": T_})
    for ki in range(4):
        obs.append({"name": "dictionary key kind %d" % ki, "fn": "rt_dict", "cfg": {"ki": ki}, "timeout": T_})
    for w in ("int", "real", "char", "string", "symbol"):
        obs.append({"name": "form inverts format: %s" % w, "fn": "form_format", "cfg": {"which": w, "n": 3 if q else 4}, "timeout": T_})
    return obs


def _probe_inf():
    from klongpy import KlongInterpreter
    k = KlongInterpreter()
    k['v'] = float("inf")
    back = k('.rs($v)')
    return not (isinstance(back, float) and back == float("inf"))


FINDING_PROBES = {"C11/inf-nan-not-readable": _probe_inf}
