"""C03 - function application, projection, locals and conditionals follow substitution.

Real code executed symbolically (program text through the real parser and interpreter): KlongInterpreter.__call__/prog/
eval/call/_eval_fn/_resolve_fn, KlongContext.push/pop/__getitem__/__setitem__, merge_projections, get_fn_arity, read_cond,
eval_dyad_at_index (function application with @).
"""
from vt.world import enter, verdict, cfg, CFG, pick, cut
from vt import npworld as W
import klongpy.interpreter as I
from klongpy.core import KGSym, KLONG_UNDEFINED

PROPERTY = "C03"
USES_SYMNP = True
I.compile_expr = lambda ast, klong: None          # the tree-walking evaluator is the subject (C05 covers the compiler)
K = W.interpreter()
FUNCTIONS = ["klongpy.interpreter.KlongInterpreter.%s" % m for m in ("__call__", "prog", "eval", "call", "_eval_fn", "_resolve_fn")] + \
    ["klongpy.interpreter.KlongContext.push", "klongpy.interpreter.KlongContext.pop", "klongpy.interpreter.KlongContext.__getitem__",
     "klongpy.interpreter.KlongContext.__setitem__", "klongpy.types.merge_projections", "klongpy.types.get_fn_arity",
     "klongpy.parser.read_cond", "klongpy.dyads.eval_dyad_at_index"]
ASSUMPTIONS = [
    "NumPy = vt.symnp (conformance-gated; witnesses replayed on real NumPy); expression compiler disabled in this check",
    "function bodies are drawn from an enumerated template list (they are programs, not data); argument values are symbolic integers",
    "a failing sub-expression is a Python callable bound in the interpreter that raises on its k-th call (k symbolic)",
]
OUTSIDE = ["torch backend", "strict_mode >= 1", "module-qualified names", "bodies outside the template list"]

# ------------------------------------------------------------------------------------------------ (a) substitution
# body text, python meaning, arity
BODIES = [
    ("(x-y)+2*z", lambda x, y, z: (x - y) + 2 * z, 3),
    ("x-(y-z)", lambda x, y, z: x - (y - z), 3),
    (":[x>y;x-z;y-z]", lambda x, y, z: (x - z) if x > y else (y - z), 3),
    ("x-2*y", lambda x, y, z: x - 2 * y, 2),
    (":[x<y;(2*x)-y;y-x]", lambda x, y, z: (2 * x - y) if x < y else (y - x), 2),
    ("{[t];t::x-y;t+t}(x;y)-x", lambda x, y, z: 2 * (x - y) - x, 2),
    ("1+2*x", lambda x, y, z: 1 + 2 * x, 1),
    ("gv+x", lambda x, y, z: 1000 + x, 1),
]

# call forms: text with placeholders; A,B,C are variables bound to the symbolic arguments
FORMS3 = ["f(A;B;C)", "h::f;h(A;B;C)", "f@[;A;B;C]", "f(A;;C)@B", "f(;B;C)@A", "f(A;B;)@C", "f(;;C)@[;A;B]", "f(A;;)@[;B;C]",
          "f(;B;)@[;A;C]", "p::f(;;C);q::p(;B);q(A)", "p::f(A;;);q::p(;C);q(B)", "p::f(;B;);q::p(A;);q(C)", "p::f(;B;);p(A;C)",
          "p::f(A;;);q::p(B;);q(C)"]
FORMS2 = ["f(A;B)", "h::f;h(A;B)", "f@[;A;B]", "f(A;)@B", "f(;B)@A", "p::f(;B);p(A)", "p::f(A;);p(B)", "A f'B", "*A f:\\[;B]",
          "*B f:/[;A]", "f/[;A;B]", "*|f\\[;A;B]", "*f(;B)'[;A]", "*f(A;)'[;B]"]
FORMS1 = ["f(A)", "h::f;h(A)", "f@A", "f'A", "*f'[;A]", "f:*1"]


def _reset():
    K._parse_cache.clear()
    ctx = K._context._context
    # drop user variables created by earlier paths (the interpreter is hoisted out of the traced function)
    while len(ctx) > 3:
        ctx.popleft()                # a scope leaked by an earlier path must not poison this one
    d = ctx[0]
    for k in list(d.keys()):
        if str(k) in ("f", "g", "h", "p", "q", "A", "B", "C", "t", "gv", "u", "a", "b", "cv", "zz"):
            del d[k]


def _fix(form):
    # evaluated list constructor [;a;b] builds a list from expressions
    return form


def subst(a: int, b: int, c: int, bi: int, fi: int) -> bool:
    """
    pre: 0 <= bi < len(BODIES) and bi == CFG.get('bi', bi)
    pre: 0 <= fi < 14
    post: _
    """
    enter()
    body, meaning, arity = pick(BODIES, bi)
    forms = {3: FORMS3, 2: FORMS2, 1: FORMS1}[arity]
    if fi >= len(forms):
        return True
    form = pick(forms, fi)
    if form == "f:*1":
        form = "1 f:*A"
    try:
        _reset()
        K('gv::1000')
        K('t::77')
        K['A'] = a; K['B'] = b; K['C'] = c
        K('f::{' + body + '}')
        depth0 = len(K._context._context)
        got = K(form)
        want = meaning(a, b, c)
        ok = W.canon(got) == W.canon(want)
        # locals and parameters exist only during the call
        ok = ok and len(K._context._context) == depth0 and W.canon(K('t')) == ("i", 77) and W.canon(K('gv')) == ("i", 1000)
        ok = ok and W.canon(K('A')) == W.canon(a) and W.canon(K('B')) == W.canon(b)
    except Exception as e:
        if type(e).__name__ == "OutsideModel":
            cut(str(e)[:60]); return True
        raise
    return verdict(ok)


# ------------------------------------------------------------------------------------------------ (b) failure part-way
class Boom(Exception):
    pass


_B = {"n": 0, "fail_at": -1, "log": []}


def _boom(x):
    _B["n"] += 1
    _B["log"].append(x)
    if _B["n"] == _B["fail_at"]:
        raise Boom()
    return x


K['boom'] = _boom

FAIL_PROGS = [
    # (definitions, call, number of boom calls in a complete run, python meaning)
    (["f::{[t u];t::boom(x);u::boom(y);g(t;u)}", "g::{[t];t::boom(x+y);t-boom(x)}"], "f(A;B)", 4, lambda a, b: (a + b) - a),
    (["f::{[t];t::boom(x);:[t>B;f(t-1)+boom(1);boom(0)]}"], "f(A)", None, None),
    (["f::{boom(x)+boom(y)}", "p::f(;B)"], "p(A)+p(A)", 4, lambda a, b: 2 * (a + b)),
    (["f::{[a b];a::boom(x);b::{[a];a::boom(x);a+1}(a);a+b}"], "f(A)", 2, lambda a, b: a + a + 1),
    (["f::{boom(x)}"], "f'[;A;B;A]", 3, None),
    (["f::{x+boom(y)}"], "f/[;A;B;A]", 2, lambda a, b: a + b + a),
]


def failing(a: int, b: int, k: int, pi: int) -> bool:
    """
    pre: 0 <= pi < len(FAIL_PROGS) and pi == CFG.get('pi', pi)
    pre: 0 <= k <= 6
    pre: 0 <= a - b <= 2 or pi != 1
    post: _
    """
    # the k-th call of boom raises (k == 0: never).  Afterwards the interpreter must be as before the call.
    enter()
    defs, call, nboom, meaning = pick(FAIL_PROGS, pi)
    try:
        _reset()
        K('t::77'); K('u::88'); K('a::5'); K('b::6')
        K['A'] = a; K['B'] = b
        for d in defs:
            K(d)
        depth0 = len(K._context._context)
        snap = {n: W.canon(K(n)) for n in ("t", "u", "a", "b", "A", "B")}
        _B["n"] = 0; _B["fail_at"] = k if k > 0 else -1; _B["log"] = []
        raised = False
        try:
            got = K(call)
        except Boom:
            raised = True
        _B["fail_at"] = -1
        if len(K._context._context) != depth0:
            return verdict(False)                       # a scope was left on the stack
        for n, v in snap.items():
            if W.canon(K(n)) != v:
                return verdict(False)                   # a caller's variable changed
        if not raised and meaning is not None:
            if W.canon(got) != W.canon(meaning(a, b)):
                return verdict(False)
        if nboom is not None and (raised != (0 < k <= nboom)):
            return verdict(False)
        # a following program evaluates as if the failed call had not happened
        _B["n"] = 0; _B["log"] = []
        again = K(call)
        if meaning is not None and W.canon(again) != W.canon(meaning(a, b)):
            return verdict(False)
        if len(K._context._context) != depth0:
            return verdict(False)
        K('zz::{[t];t::x;t+1}')
        return verdict(W.canon(K('zz(A)')) == W.canon(a + 1) and W.canon(K('t')) == ("i", 77))
    except Exception as e:
        if type(e).__name__ == "OutsideModel":
            cut(str(e)[:60]); return True
        raise


# ------------------------------------------------------------------------------------------------ (c) conditional truth
def conditional(c: int, kind: int, nest: int) -> bool:
    """
    pre: 0 <= kind <= 8
    pre: 0 <= nest <= 2
    post: _
    """
    enter()
    try:
        _reset()
        # condition values: symbolic integer, [], "", non-empty list, non-empty string, [0], a symbol, 0.0, a real
        if kind == 0:
            K['cv'] = c; truth = c != 0
        elif kind == 1:
            K('cv::[]'); truth = False
        elif kind == 2:
            K('cv::""'); truth = False
        elif kind == 3:
            K['cv'] = W.arr([c, 1]); truth = True
        elif kind == 4:
            K('cv::"a"'); truth = True
        elif kind == 5:
            K('cv::[0]'); truth = True
        elif kind == 6:
            K('cv:::foo'); truth = True
        elif kind == 7:
            K('cv::0.0'); truth = False
        else:
            K('cv::0.5'); truth = True
        _B["n"] = 0; _B["fail_at"] = -1; _B["log"] = []
        if nest == 0:
            got = K(':[cv;boom(1);boom(2)]'); want = 1 if truth else 2
        elif nest == 1:
            got = K(':[0;boom(9):|cv;boom(1);boom(2)]'); want = 1 if truth else 2
        else:
            got = K('{:[x;boom(1);:[cv;boom(3);boom(4)]]}(0)'); want = 3 if truth else 4
        return verdict(W.canon(got) == ("i", want) and _B["log"] == [want])      # only the selected branch ran
    except Exception as e:
        if type(e).__name__ == "OutsideModel":
            cut(str(e)[:60]); return True
        raise


def dotf_locals(n: int, m: int, form: int) -> bool:
    """
    pre: 0 <= n <= 3 and 0 <= form <= 4
    post: _
    """
    # recursion through .f: every level has its own parameters AND its own declared locals, exactly like recursion by name;
    # .f still names the running function after OTHER functions were called and have returned (helper, lambda under an adverb)
    enter()
    try:
        _reset()
        K['A'] = n; K['B'] = m
        K('t::77')
        if form == 0:
            got = K('{[a];a::x+B;:[x>0;.f(x-1);0];a}(A)'); want = n + m
        elif form == 1:
            got = K('{[a t];a::x;t::y;:[x>0;.f(x-1;y+1);0];(100*a)+t}(A;B)'); want = 100 * n + m
        elif form == 3:
            K('g::{x*B}')
            got = K('{:[x<1;0;.f(x-1)+g(x)]}(A)'); want = m * (n * (n + 1) // 2)
        elif form == 4:
            got = K("{:[x<1;0;.f(x-1)+*{x+B}'x,x]}(A)"); want = (n * (n + 1) // 2) + n * m
        else:
            K('f::{[a];a::x+B;:[x>0;.f(x-1);0];a}')
            got = K("f'[;A;A]"); want = [n + m, n + m]
        return verdict(W.canon(got) == W.canon(want) and W.canon(K('t')) == ("i", 77) and len(K._context._context) == 3)
    except Exception as e:
        if type(e).__name__ == "OutsideModel":
            cut(str(e)[:60]); return True
        raise


_T = {"log": []}


def _tst(x, y):
    _T["log"].append(x)
    return y


K['tst'] = _tst


def cond_chain(c1: int, c2: int, c3: int, form: int) -> bool:
    """
    pre: 0 <= form <= 2
    post: _
    """
    # a chain  :[t1;b1:|t2;b2:|t3;b3;b4]  selects the branch of the FIRST true test, evaluates the tests in order and only up to
    # that one, and evaluates no other branch; tests and branches are observable (they log)
    enter()
    try:
        _reset()
        K['c1'] = c1; K['c2'] = c2; K['c3'] = c3
        _B["n"] = 0; _B["fail_at"] = -1; _B["log"] = []; _T["log"] = []
        if form == 0:
            got = K(':[tst(1;c1);boom(1):|tst(2;c2);boom(2):|tst(3;c3);boom(3);boom(4)]')
            tests = [c1, c2, c3]
        elif form == 1:
            got = K('{:[tst(1;x);boom(1):|tst(2;y);boom(2):|tst(3;z);boom(3);boom(4)]}(c1;c2;c3)')
            tests = [c1, c2, c3]
        else:
            got = K(':[tst(1;c1);boom(1):|tst(2;c2);boom(2);boom(4)]')
            tests = [c1, c2]
        want = 4; seen = []
        for i, c in enumerate(tests):
            seen.append(i + 1)
            if c != 0:
                want = i + 1
                break
        return verdict(W.canon(got) == ("i", want) and _B["log"] == [want] and _T["log"] == seen)
    except Exception as e:
        if type(e).__name__ == "OutsideModel":
            cut(str(e)[:60]); return True
        raise


def bounds(tier):
    return {"bodies": [b[0] for b in BODIES], "call forms": {"triad": FORMS3, "dyad": FORMS2, "monad": FORMS1},
            "arguments": "unbounded symbolic integers", "failure ordinal": "0 (never) .. 6", "failing programs": [p[1] for p in FAIL_PROGS],
            "conditional chains": "two and three tests joined with :| (top level and inside a function), any integers as test values",
            "condition values": "any integer, [], \"\", [c 1], \"a\", [0], :foo, 0.0, 0.5; plain, :| chain and nested conditionals"}


def obligations(tier):
    q = tier == "quick"
    obs = []
    for bi in range(len(BODIES)):
        obs.append({"name": "substitution body %s" % BODIES[bi][0], "fn": "subst", "cfg": {"bi": bi}, "timeout": 300 if q else 900,
                    "env": {}})
    for pi in range(len(FAIL_PROGS)):
        obs.append({"name": "failure part-way %s" % FAIL_PROGS[pi][1], "fn": "failing", "cfg": {"pi": pi}, "timeout": 300 if q else 900})
    obs.append({"name": "conditional truth", "fn": "conditional", "cfg": {}, "timeout": 200})
    obs.append({"name": ".f recursion keeps parameters and declared locals per level", "fn": "dotf_locals", "cfg": {}, "timeout": 200})
    obs.append({"name": "conditional chain :| (first true test wins, tests in order, one branch)", "fn": "cond_chain", "cfg": {}, "timeout": 200})
    return obs
