"""C14 - every remote call gets its own answer or an error: never another's, never hangs.

Real code executed symbolically: NetworkClient.call, _listen, _run (incl. its finally), _cleanup_pending_responses,
is_open.  Stand-ins: futures, the transport functions stream_recv_msg/stream_send_msg, the connection provider,
uuid4 (ids from a small domain), run_coroutine_threadsafe (a nested cooperative scheduler).
"""
from typing import List
from vt.world import enter, verdict, cfg, CFG, pick
import klongpy.sys_fn_ipc as IPC
from klongpy.core import KlongException
from vt.props.ipcstub import Fut, step, Prov, Loop, patch, unpatch

PROPERTY = "C14"
FUNCTIONS = ["klongpy.sys_fn_ipc.NetworkClient.%s" % m for m in
             ("call", "_listen", "_run", "_cleanup_pending_responses", "is_open", "__init__")] + ["klongpy.sys_fn_ipc.execute_server_command"]
ASSUMPTIONS = [
    "futures follow the asyncio.Future contract (single transition, set_exception requires an exception object)",
    "transport = stubs for stream_recv_msg/stream_send_msg returning an arbitrary (id, message) or raising an arbitrary transport fault class",
    "message ids come from a 4-element domain (uuid4 uniqueness trusted); nothing branches on id content",
    "concurrency = properly nested interleavings of caller threads and the listener on one thread (DESIGN 2.5)",
]
OUTSIDE = ["real sockets and thread timing", "TCP server accept path", "pickle of values (C13)"]

FAULTS = [None, "incomplete", "reset", "oserror", "other"]


def _mkfault(f):
    if f == "incomplete":
        return IPC.IncompleteReadError(b'', 4)
    if f == "reset":
        return ConnectionResetError()
    if f == "oserror":
        return OSError()
    return ValueError("garbage on the wire")


def _client(ids, prov=None):
    nc = IPC.NetworkClient(Loop(), None, None, prov or Prov())
    futs = {}
    for i in ids:
        f = Fut(); futs[i] = f; nc.pending_responses[i] = f
    return nc, futs


# -------------------------------------------------------------------------------- L1: one _listen step, any state
def listen_step(p0: bool, p1: bool, p2: bool, p3: bool, m: int, fault: int, close_msg: bool) -> bool:
    """
    pre: 0 <= m <= 3
    pre: 0 <= fault <= 4
    post: _
    """
    enter()
    ids = [i for i, p in enumerate([p0, p1, p2, p3]) if p]
    nc, futs = _client(ids)
    payload = IPC.KGRemoteCloseConnection() if close_msg else object()
    f = pick(FAULTS, fault)
    m = pick([0, 1, 2, 3], m)

    async def recv(reader):
        if f is not None:
            raise _mkfault(f)
        return m, payload
    sent = []

    async def send(writer, msg_id, msg):
        sent.append((msg_id, msg))
    ran = []

    async def run_cmd(klongloop, klong, command, nc_):
        ran.append(command); return "resp"
    patch(stream_recv_msg=recv, stream_send_msg=send, run_command_on_klongloop=run_cmd)
    try:
        kind, val = step(nc._listen())
    finally:
        unpatch()
    others_untouched = all((not fu.done()) and fu.sets == 0 and (i in nc.pending_responses) and nc.pending_responses[i] is fu
                           for i, fu in futs.items() if i != m or f is not None)
    if f is not None:
        ok = kind == 'exc' and others_untouched and len(nc.pending_responses) == len(ids) and not sent and not ran
        if f in ("incomplete", "reset", "oserror"):
            ok = ok and isinstance(val, IPC.KlongIPCConnectionFailureException)
        return verdict(ok)
    if m in ids:
        ok = futs[m].state == 'result' and futs[m].val is payload and futs[m].sets == 1 and m not in nc.pending_responses
        ok = ok and others_untouched and not ran and not sent
        if close_msg:
            ok = ok and kind == 'exc' and isinstance(val, IPC.KGRemoteCloseConnectionException)
        else:
            ok = ok and kind == 'ret'
        return verdict(ok)
    if close_msg:
        return verdict(kind == 'exc' and isinstance(val, IPC.KGRemoteCloseConnectionException) and sent == [(m, payload)]
                       and not ran and others_untouched)
    return verdict(kind == 'ret' and ran == [payload] and sent == [(m, "resp")] and others_untouched)


# -------------------------------------------------------------------------------- L2: _run ends with nobody left waiting
def run_end(p0: bool, p1: bool, p2: bool, p3: bool, m0: int, m1: int, nmsg: int, end: int) -> bool:
    """
    pre: 0 <= m0 <= CFG.get('idmax', 3) and 0 <= m1 <= CFG.get('idmax', 3)
    pre: p3 == False or CFG.get('idmax', 3) == 3
    pre: 0 <= nmsg <= 2
    pre: 1 <= end <= 5
    post: _
    """
    # the listener receives `nmsg` ordinary responses (ids m0, m1), then the connection ends in one of five ways:
    # 1-4 transport faults, 5 close request from the peer.  (`running` switched off by _stop() while calls are pending is
    # not a state a real history reaches: _stop() is only called after the close handshake or after _run has ended.)
    enter()
    ids = [i for i, p in enumerate([p0, p1, p2, p3]) if p]
    nc, futs = _client(ids)
    nc.running = True
    script = [m0, m1][:nmsg]
    payloads = {}
    pos = [0]

    async def recv(reader):
        k = pos[0]; pos[0] += 1
        if k < len(script):
            p = object(); payloads[k] = p
            return script[k], p
        if end <= 4:
            raise _mkfault(FAULTS[end])
        return 99, IPC.KGRemoteCloseConnection()
    sent = []

    async def send(writer, msg_id, msg):
        sent.append((msg_id, msg))

    async def run_cmd(klongloop, klong, command, nc_):
        return "resp"
    closed = []

    async def on_close(c):
        closed.append(1)
    patch(stream_recv_msg=recv, stream_send_msg=send, run_command_on_klongloop=run_cmd)
    try:
        kind, val = step(nc._run(None, on_close, None))
    finally:
        unpatch()
    if kind != 'ret':
        return verdict(False)                    # _run itself must terminate normally ...
    if not nc._run_exit_event.is_set():
        return verdict(False)                    # ... and release whoever waits in _stop()
    if nc.pending_responses:
        return verdict(False)
    # who should have got an answer: the first delivery for each pending id
    expect = {}
    for k, mid in enumerate(script):
        if k in payloads and mid in ids and mid not in expect:
            expect[mid] = payloads[k]
    for i, fu in futs.items():
        if not fu.done() or fu.sets != 1:
            return verdict(False)                # nobody is left waiting, nobody is completed twice
        if i in expect:
            if fu.state != 'result' or fu.val is not expect[i]:
                return verdict(False)
        elif fu.state != 'exc':
            return verdict(False)
    return verdict(len(closed) == 1 and nc.reader is None and nc.writer is None)


# -------------------------------------------------------------------------------- L3: call on a closed connection
def call_closed(p0: bool, p1: bool) -> bool:
    """
    post: _
    """
    enter()
    ids = [i for i, p in enumerate([p0, p1]) if p]
    nc, futs = _client(ids, Prov(open_=False))
    before = dict(nc.pending_responses)
    try:
        nc.call("msg")
    except KlongException:
        return verdict(nc.pending_responses == before)
    return verdict(False)


# -------------------------------------------------------------------------------- L5: a call made after the listener has gone
class _Hang(Exception):
    """the caller would wait for a future that nobody is left to complete"""


def late_call(end: int, provider_open: bool) -> bool:
    """
    pre: 1 <= end <= 5
    post: _
    """
    # The listener task has ended (transport fault 1-4 or close request 5), through the real _run.  The connection object may still
    # look open (a half-closed TCP connection does).  A call made NOW goes through the real call() and the real stream_send_msg:
    # it must fail, promptly - it must not end up waiting for a response that cannot come.
    enter()
    prov = Prov(open_=True)
    nc, futs = _client([], prov)
    nc.running = True

    async def recv(reader):
        if end <= 4:
            raise _mkfault(FAULTS[end])
        return 99, IPC.KGRemoteCloseConnection()

    async def send(writer, msg_id, msg):
        pass
    patch(stream_recv_msg=recv, stream_send_msg=send)
    try:
        kind, val = step(nc._run(None, None, None))
    finally:
        unpatch()
    if kind != 'ret':
        return verdict(False)
    prov.open = provider_open

    class _A:
        @staticmethod
        def run_coroutine_threadsafe(coro, loop):
            r = step(coro)

            class _H:
                def result(self_, timeout=None):
                    if r[0] == 'exc':
                        raise r[1]
                    if r[0] == 'susp':
                        raise _Hang()
                    return r[1]
            return _H()

    class _U:
        @staticmethod
        def uuid4():
            import uuid as _uuid
            return _uuid.UUID(int=7)             # a real id: the real encode_message must be able to frame it
    patch(asyncio=_A, uuid=_U)                   # the real stream_send_msg stays in place
    try:
        try:
            nc.call("late message")
        except _Hang:
            return verdict(False)
        except Exception:
            return verdict(True)                 # fails promptly: fine, whatever the exception class
        return verdict(False)                    # there is nobody who could have answered
    finally:
        unpatch()


# -------------------------------------------------------------------------------- S: scheduled simulation of callers + listener
class _Sched:
    """properly nested interleavings: a caller blocked in .result() lets the scheduler run other actors"""
    def __init__(self, nc, choices, inbound, ncallers):
        self.nc = nc; self.choices = list(choices); self.inbound = list(inbound); self.ncallers = ncallers
        self.started = [False] * ncallers; self.sent = []      # ids on the wire, in order
        self.results = {}                                      # caller -> ('ret', v) | ('exc', e)
        self.listener = None; self.listener_done = None
        self.depth = 0; self.cut = False; self.msgs = {}; self.hung = False
        self.released = 0

    def choose(self):
        if not self.choices:
            return None
        c = self.choices.pop(0)
        return c if c < self.ncallers else self.ncallers

    # ---- transport stubs
    async def recv(self, reader):
        while True:
            if self.released > 0:
                self.released -= 1
                ev = self.inbound.pop(0)
                if ev[0] == 'resp':
                    j = ev[1]
                    if j >= len(self.sent):
                        self.cut = True                    # the peer cannot answer a request it has not received
                        raise IPC.IncompleteReadError(b'', 1)
                    return self.sent[j], ('answer-to', self.sent[j])
                raise _mkfault(ev[1])
            yield_ = Fut()                                  # wait for the scheduler to release an event
            await _Once()

    async def send(self, writer, msg_id, msg):
        if writer is None:
            raise AttributeError("'NoneType' object has no attribute 'write'")
        self.sent.append(msg_id)

    # ---- actors
    def run_listener_step(self):
        if self.listener is None:
            self.nc.running = True
            self.listener = self.nc._run(None, None, None)
        if self.listener_done is None:
            r = step(self.listener)
            if r[0] != 'susp':
                self.listener_done = r

    def caller(self, j):
        self.started[j] = True
        try:
            v = self.nc.call(('request', j))
            self.results[j] = ('ret', v)
        except Exception as e:
            self.results[j] = ('exc', e)

    def run_coroutine_threadsafe(self, coro, loop):
        sched = self

        class _Handle:
            def result(self_):
                # drive the coroutine; whenever it is blocked let the scheduler pick who runs next
                while True:
                    r = step(coro)
                    if r[0] == 'ret':
                        return r[1]
                    if r[0] == 'exc':
                        raise r[1]
                    if not sched.progress():
                        # no scheduling decisions left: let the environment finish (the script ends with a connection
                        # loss, so the listener terminates); a caller that is still blocked then waits forever
                        sched.drain()
                        r = step(coro)
                        if r[0] == 'ret':
                            return r[1]
                        if r[0] == 'exc':
                            raise r[1]
                        sched.hung = True
                        raise _Stuck()
        return _Handle()

    def drain(self):
        n = 0
        while self.inbound and self.listener_done is None and n < 8 and not self.cut:
            n += 1
            self.released += 1
            self.run_listener_step()

    def progress(self):
        """one scheduling decision; False when nothing can run"""
        c = self.choose()
        if c is None:
            return False
        # c: 0..ncallers-1 start that caller (nested), ncallers: deliver next inbound event to the listener
        if c < self.ncallers:
            if self.started[c]:
                return self.progress()
            self.depth += 1
            self.caller(c)
            self.depth -= 1
            return True
        if self.inbound and self.listener_done is None:
            self.released += 1
            self.run_listener_step()
            return True
        if self.listener_done is None and self.listener is None:
            self.run_listener_step()
            return True
        return self.progress()


class _Once:
    def __await__(self):
        yield self


class _Stuck(Exception):
    pass


def sim(c0: int, c1: int, c2: int, c3: int, c4: int, c5: int, c6: int, c7: int,
        e0: int, e1: int, e2: int) -> bool:
    """
    pre: 0 <= c0 <= CFG['callers'] and 0 <= c1 <= CFG['callers'] and 0 <= c2 <= CFG['callers'] and 0 <= c3 <= CFG['callers']
    pre: 0 <= c4 <= CFG['callers'] and 0 <= c5 <= CFG['callers'] and 0 <= c6 <= CFG['callers'] and 0 <= c7 <= CFG['callers']
    pre: 0 <= e0 <= CFG['callers'] and 0 <= e1 <= CFG['callers'] and 0 <= e2 <= CFG['callers']
    post: _
    """
    # N callers; inbound script: up to 3 events, each 'answer the j-th request that went on the wire' (e < N) or 'the
    # connection is lost' (e == N); the script always ends with a connection loss.  c*: scheduling choices.
    enter()
    N = cfg("callers", 2)
    nev = cfg("events", 2)
    fault = FAULTS.index(cfg("fault", "incomplete"))
    raw = [e0, e1, e2][:nev]
    inbound = []
    for e in raw:
        if e < N:
            inbound.append(('resp', e))
        else:
            inbound.append(('loss', pick(FAULTS, fault)))
            break
    else:
        inbound.append(('loss', pick(FAULTS, fault)))
    answered = [ev[1] for ev in inbound if ev[0] == 'resp']
    if len(set(answered)) != len(answered):
        return True                          # a peer answers each request once
    prov = Prov()
    nc = IPC.NetworkClient(Loop(), None, None, prov)
    choices = [c0, c1, c2, c3, c4, c5, c6, c7][:cfg('decisions', 6)]
    if cfg('first_choice', None) is not None:
        choices[0] = cfg('first_choice')
    ids = iter([101, 102, 103, 104])
    S = _Sched(nc, choices, inbound, N)

    class _Uuid:
        @staticmethod
        def uuid4():
            return next(ids)

    class _Asyncio:
        run_coroutine_threadsafe = staticmethod(S.run_coroutine_threadsafe)
    patch(stream_recv_msg=S.recv, stream_send_msg=S.send, uuid=_Uuid, asyncio=_Asyncio)
    try:
        # connection is up: reader/writer set as _run does after connect
        S.run_listener_step()
        guard = 0
        while guard < 10:
            guard += 1
            try:
                if not S.progress():
                    break
            except _Stuck:
                break
        # drain: deliver whatever is left of the script, then start callers that never ran (they must fail promptly)
        S.drain()
        if S.hung:
            return verdict(False)            # a caller is blocked although the connection is gone
        if S.cut:
            return True
        late = []
        for j in range(N):
            if not S.started[j]:
                # the listener has gone: a call now must return or raise, not wait
                S.choices = []
                S.caller(j)
                late.append(j)
        if S.hung:
            return verdict(False)
    finally:
        unpatch()
    # every caller returned its own answer exactly once, or raised
    for j in range(N):
        if j not in S.results:
            return verdict(False)
        kind, v = S.results[j]
        if kind == 'ret':
            # its own: the answer the peer produced for the id this caller put on the wire
            if not (isinstance(v, tuple) and v[0] == 'answer-to'):
                return verdict(False)
            if v[1] not in S.sent:
                return verdict(False)
            owners = [k for k in range(N) if S.results.get(k, (None, None))[0] == 'ret' and S.results[k][1] == v]
            if owners != [j]:
                return verdict(False)
    return verdict(not nc.pending_responses or all(j in late for j in late))


def bounds(tier):
    q = tier == "quick"
    return {"pending table": "any subset of a 4-id domain (lemmas)", "transport faults": FAULTS[1:],
            "listener script": "<= 2 ordinary messages then one of 6 endings (lemma L2)",
            "simulation": "%d callers, <= %d inbound events + final connection loss, <= 8 scheduling decisions, properly nested interleavings"
                          % ((2, 2) if q else (3, 3))}


def obligations(tier):
    q = tier == "quick"
    T_ = 200 if q else 900
    obs = [
        {"name": "L1 one _listen step from any pending table", "fn": "listen_step", "cfg": {}, "timeout": T_},
        {"name": "L2 _run ends with every pending call completed exactly once", "fn": "run_end", "cfg": {"idmax": 2 if q else 3}, "timeout": T_},
        {"name": "L3 call on a closed connection registers nothing and raises", "fn": "call_closed", "cfg": {}, "timeout": 60},
        {"name": "L5 a call made after the listener has gone fails promptly (real send path)", "fn": "late_call", "cfg": {}, "timeout": 60},
        # server side: whatever a command does (incl. every failure class) its result future is completed exactly once, so the
        # response - or the error - is sent and the remote caller does not wait forever (harness shared with C13)
        {"name": "L4 server side: every command class completes its response future exactly once", "module": "vt.props.C13", "fn": "dispatch",
         "cfg": {}, "timeout": 120},
    ]
    for f in (["incomplete", "other"] if q else FAULTS[1:]):
        for fc in range(3):
            obs.append({"name": "S callers=2 events=2 fault=%s first=%d" % (f, fc), "fn": "sim",
                        "cfg": {"callers": 2, "events": 2, "fault": f, "decisions": 5 if q else 7, "first_choice": fc}, "timeout": T_})
        if not q:
            obs.append({"name": "S callers=3 events=3 fault=%s" % f, "fn": "sim",
                        "cfg": {"callers": 3, "events": 3, "fault": f, "decisions": 6}, "timeout": 2400})
    return obs
