"""C02 - adverbs equal their definitional expansion for every verb and operand.

Real code executed symbolically: every eval_adverb_* function, eval_dyad_adverb_iterate, get_adverb_fn, chain_adverbs,
the interpreter's parser/_apply_adverbs/eval/_eval_fn for the program text, the verb functions they call.
The expression compiler is switched off here (klongpy.interpreter.compile_expr -> None) so that the adverb code itself
is what runs; compiled-vs-interpreted equivalence is C05's subject.
"""
from typing import List
import functools
from vt.world import enter, verdict, cfg, CFG, pick, cut
from vt import npworld as W
import klongpy.interpreter as I
import klongpy.adverbs as _A
from klongpy.core import KGChar, KGSym

PROPERTY = "C02"
USES_SYMNP = True
_REAL_COMPILE = I.compile_expr
_NO_COMPILE = lambda ast, klong: None
I.compile_expr = _NO_COMPILE
K = W.interpreter()
K('g::{(2*x)+(3*y)+1}')            # non-commutative, non-associative, linear: distinct application trees give distinct forms
K('h::{(2*x)+1}')
K['pg'] = lambda x, y: (2 * x) + (3 * y) + 1
K['ph'] = lambda x: (2 * x) + 1
K('dec::{:[x>0;x-1;0]}')
K('lt::{x<6}')
K('inc::{x+1}')
K('ix::{(x@0)+(2*x@1)}')
K('g5::g(;5)')                      # projection: a monad
K('neg::{-x}')

FUNCTIONS = sorted("klongpy.adverbs." + n for n in dir(_A) if n.startswith("eval_")) + \
    ["klongpy.adverbs.get_adverb_fn", "klongpy.interpreter.chain_adverbs", "klongpy.interpreter.KlongInterpreter._apply_adverbs",
     "klongpy.interpreter.KlongInterpreter.eval", "klongpy.interpreter.KlongInterpreter._eval_fn"]
ASSUMPTIONS = [
    "NumPy = vt.symnp (conformance-gated, witnesses replayed on real NumPy)",
    "the expression compiler is disabled in this check so the adverb implementations are exercised (C05 covers the compiler)",
    "user verb g(x,y)=2x+3y+1 and h(x)=2x+1 are linear, so equality for all integers is equality of the application tree",
    "that numpy.add.reduce etc. fold along axis 0 is the model's documented semantics (validated by the gate), not proved",
]
OUTSIDE = ["torch backend", "real-valued convergence (:~ on floats)", "dictionary iteration order beyond insertion order"]


# ---------------------------------------------------------------------------------------------------- python models of verbs
def _join(x, y):
    lx, ly = isinstance(x, list), isinstance(y, list)
    if lx and ly:
        return x + y
    if lx:
        return x + [y]
    if ly:
        return [x] + y
    return [x, y]


def _ext(f):
    def g(x, y):
        lx, ly = isinstance(x, list), isinstance(y, list)
        if lx and ly:
            return [g(a, b) for a, b in zip(x, y)]
        if lx:
            return [g(a, y) for a in x]
        if ly:
            return [g(x, b) for b in y]
        return f(x, y)
    return g


DY = {
    "+": _ext(lambda x, y: x + y), "-": _ext(lambda x, y: x - y), "*": _ext(lambda x, y: x * y),
    "|": _ext(lambda x, y: x if x >= y else y), "&": _ext(lambda x, y: x if x <= y else y),
    ",": _join, "g": _ext(lambda x, y: 2 * x + 3 * y + 1), "pg": _ext(lambda x, y: 2 * x + 3 * y + 1),
    "{x-y}": _ext(lambda x, y: x - y),
}


def _ext1(f):
    def g(x):
        return [g(a) for a in x] if isinstance(x, list) else f(x)
    return g


MO = {"-": _ext1(lambda x: -x), "h": _ext1(lambda x: 2 * x + 1), "ph": _ext1(lambda x: 2 * x + 1), "neg": _ext1(lambda x: -x),
      "g5": _ext1(lambda x: 2 * x + 16), "{x*2}": _ext1(lambda x: x * 2)}


# ---------------------------------------------------------------------------------------------------- expansions (definitions)
def x_over(f, a):
    if not isinstance(a, list) or len(a) == 0:
        return a
    acc = a[0]
    for e in a[1:]:
        acc = f(acc, e)
    return acc


def x_over_neutral(f, n, b):
    if not isinstance(b, list):
        return f(n, b)
    acc = n
    for e in b:
        acc = f(acc, e)
    return acc


def x_scan(f, a):
    if not isinstance(a, list) or len(a) == 0:
        return a
    out = [a[0]]
    for e in a[1:]:
        out.append(f(out[-1], e))
    return out


def x_scan_neutral(f, n, b):
    bb = b if isinstance(b, list) else [b]
    out = [n]
    for e in bb:
        out.append(f(out[-1], e))
    return out


def x_each(m, a):
    if not isinstance(a, list):
        return m(a)
    return [m(e) for e in a]


def x_each2(f, a, b):
    la, lb = isinstance(a, list), isinstance(b, list)
    if not la and not lb:
        return f(a, b)
    return [f(x, y) for x, y in zip(a, b)]


def x_each_left(f, n, b):
    if not isinstance(b, list):
        return f(n, b)
    return [f(n, e) for e in b]


def x_each_right(f, n, b):
    if not isinstance(b, list):
        return f(b, n)
    return [f(e, n) for e in b]


def x_each_pair(f, a):
    if not isinstance(a, list) or len(a) <= 1:
        return a
    return [f(a[i], a[i + 1]) for i in range(len(a) - 1)]


def x_each_index(m, a):
    return [m([i, e]) for i, e in enumerate(a)]


def x_iterate(m, n, b, collect=False):
    out = [b]
    for _ in range(n):
        b = m(b); out.append(b)
    return out if collect else b


# ---------------------------------------------------------------------------------------------------- programs
def _dec(x):
    return x - 1 if x > 0 else 0


# name -> (text, needs, oracle(v, w, n) , precondition(v, w, n))
def _progs():
    P = {}
    for f in ("+", "-", "*", "|", "&", ",", "g", "pg", "{x-y}"):
        fn = DY[f]
        P["over " + f] = ("%s/v" % f, lambda v, w, n, fn=fn: x_over(fn, v), None)
        P["scan " + f] = ("%s\\v" % f, lambda v, w, n, fn=fn: x_scan(fn, v), None)
        P["over-neutral " + f] = ("n %s/v" % f, lambda v, w, n, fn=fn: x_over_neutral(fn, n, v), None)
        P["scan-neutral " + f] = ("n %s\\v" % f, lambda v, w, n, fn=fn: x_scan_neutral(fn, n, v), lambda v, w, n: len(v) > 0)
        P["each-pair " + f] = ("%s:'v" % f, lambda v, w, n, fn=fn: x_each_pair(fn, v), None)
        P["each-left " + f] = ("n %s:\\v" % f, lambda v, w, n, fn=fn: x_each_left(fn, n, v), lambda v, w, n: len(v) > 0)
        P["each-right " + f] = ("n %s:/v" % f, lambda v, w, n, fn=fn: x_each_right(fn, n, v), lambda v, w, n: len(v) > 0)
        P["each2 " + f] = ("v %s'w" % f, lambda v, w, n, fn=fn: x_each2(fn, v, w), lambda v, w, n: len(v) > 0 and len(w) > 0)
        P["over atom " + f] = ("%s/n" % f, lambda v, w, n: n, None)
        P["over-neutral atom " + f] = ("n %s/n" % f, lambda v, w, n, fn=fn: fn(n, n), None)
        P["each2 atoms " + f] = ("n %s'n" % f, lambda v, w, n, fn=fn: fn(n, n), None)
        P["each-pair atom " + f] = ("%s:'n" % f, lambda v, w, n: n, None)
        P["each-left atom " + f] = ("n %s:\\k" % f, lambda v, w, n, fn=fn: fn(n, len(w)), None)       # an atom b: a f:\b is f(a;b)
        P["each-right atom " + f] = ("n %s:/k" % f, lambda v, w, n, fn=fn: fn(len(w), n), None)
    for m in ("-", "h", "ph", "neg", "g5", "{x*2}"):
        fn = MO[m]
        P["each " + m] = ("%s'v" % m, lambda v, w, n, fn=fn: x_each(fn, v), None)
        P["each atom " + m] = ("%s'n" % m, lambda v, w, n, fn=fn: fn(n), None)
        P["iterate " + m] = ("k %s:*n" % m, lambda v, w, n, fn=fn: x_iterate(fn, len(w), n), None)
        P["scan-iterate " + m] = ("k %s\\*n" % m, lambda v, w, n, fn=fn: x_iterate(fn, len(w), n, True), lambda v, w, n: len(w) > 0)
    P["each-index"] = ("ix@'v", lambda v, w, n: [i + 2 * e for i, e in enumerate(v)], lambda v, w, n: len(v) > 0)
    P["converge"] = ("dec:~n", lambda v, w, n: 0, lambda v, w, n: 0 <= n <= 4)
    P["scan-converge"] = ("dec\\~n", lambda v, w, n: list(range(n, -1, -1)) if n > 0 else [0], lambda v, w, n: 0 <= n <= 4)
    P["while"] = ("lt inc:~n", lambda v, w, n: n if n >= 6 else 6, lambda v, w, n: 1 <= n <= 8)
    P["scan-while"] = ("lt inc\\~n", lambda v, w, n: list(range(n, 6)), lambda v, w, n: 1 <= n <= 5)
    # chains: the first adverb makes a monad, the second modifies it
    P["chain over-each +"] = ("+/'m", lambda v, w, n: [x_over(DY["+"], r) for r in (v, w)], lambda v, w, n: len(v) == len(w) and len(v) > 0)
    P["chain over-each g"] = ("g/'m", lambda v, w, n: [x_over(DY["g"], r) for r in (v, w)], lambda v, w, n: len(v) == len(w) and len(v) > 0)
    P["chain scan-each -"] = ("-\\'m", lambda v, w, n: [x_scan(DY["-"], r) for r in (v, w)], lambda v, w, n: len(v) == len(w) and len(v) > 0)
    P["chain each-each h"] = ("h''m", lambda v, w, n: [x_each(MO["h"], r) for r in (v, w)], lambda v, w, n: len(v) == len(w) and len(v) > 0)
    P["chain eachpair-each -"] = ("-:''m", lambda v, w, n: [x_each_pair(DY["-"], r) for r in (v, w)], lambda v, w, n: len(v) == len(w) and len(v) > 1)
    P["chain join-over-converge"] = (",/:~deep", lambda v, w, n: [n] + v + [n, n], lambda v, w, n: len(v) > 0)
    # three adverbs: every stage after the first keeps its OWN adverb
    P["chain3 join-over-converge-each"] = (",/:~'dd", lambda v, w, n: [[n] + v + [n, n], [n, n]], lambda v, w, n: len(v) > 0)
    P["chain3 scan-each-each -"] = ("-\\''mm", lambda v, w, n: [[x_scan(DY["-"], r) for r in (v, w)] for _ in range(2)],
                                    lambda v, w, n: len(v) == len(w) and len(v) > 0)
    P["chain3 over-each-converge g"] = ("g/':~m", lambda v, w, n: [x_over(DY["g"], r) for r in (v, w)],
                                        lambda v, w, n: len(v) == len(w) and len(v) > 1)
    # a RECTANGULAR list whose cells are themselves nested lists (2x2 outer shape, ragged inside)
    P["over join on a row of a rectangular nested list"] = (",/rect@0", lambda v, w, n: [n, v, [n]], lambda v, w, n: len(v) > 0)
    P["chain join-over-converge each rectangular nested"] = ("{,/:~x}'rect", lambda v, w, n: [[n] + v + [n], [n, n]], lambda v, w, n: len(v) > 0)
    # matrices: the shortcut guards (ndim, dtype) must not change the meaning
    for f in ("+", "-", "*", "|", "&", ","):
        fn = DY[f]
        P["over matrix " + f] = ("%s/m" % f, lambda v, w, n, fn=fn: x_over(fn, [v, w]), lambda v, w, n: len(v) == len(w) and len(v) > 0)
        P["scan matrix " + f] = ("%s\\m" % f, lambda v, w, n, fn=fn: x_scan(fn, [v, w]), lambda v, w, n: len(v) == len(w) and len(v) > 0)
    # nested (object) vectors
    for f in ("+", "-", "*", "g", "|", "&"):
        fn = DY[f]
        P["over nested " + f] = ("%s/nest" % f, lambda v, w, n, fn=fn: x_over(fn, [n, [n + 1, n], n]), None)
        P["scan nested " + f] = ("%s\\nest" % f, lambda v, w, n, fn=fn: x_scan(fn, [n, [n + 1, n], n]), None)
    return P


PROGS = _progs()


def _bind(v, w, n):
    K['v'] = W.arr(v)
    K['w'] = W.arr(w)
    K['n'] = n
    K['k'] = len(w)
    K['nest'] = W.arr([n, [n + 1, n], n])
    if len(v) > 0:
        K['deep'] = W.arr([n, [v, [n]], n])
        K['rect'] = W.arr([[n, [v, [n]]], [[[n]], n]])
        K['dd'] = W.arr([[n, [v, [n]], n], [[n], [[n]]]])
    if len(v) == len(w) and len(v) > 0:
        K['m'] = W.arr([v, w])
        K['mm'] = W.arr([[v, w], [v, w]])


def adv(v: List[int], w: List[int], n: int) -> bool:
    """
    pre: len(v) <= CFG['n'] and len(w) <= CFG['n']
    post: _
    """
    enter()
    name = CFG["prog"]
    text, oracle, pre = PROGS[name]
    v = list(v); w = list(w)
    if pre is not None and not pre(v, w, n):
        return True
    if name.startswith(("iterate", "scan-iterate")) and len(w) > 3:
        return True
    if ("*" in name.split()[-1] or name.startswith(("iterate", "scan-iterate"))) and not (-50 <= n <= 50):
        return True
    compiled = bool(CFG.get("compiled"))
    if compiled:
        # the same program with the expression compiler ON: the operand comes from a variable, so |/m, +\\v ... are compiled;
        # whatever runs, the value must still be the adverb's expansion
        K._parse_cache.clear(); K._compiled_cache.clear()
        I.compile_expr = _REAL_COMPILE
    try:
        _bind(v, w, n)
        got = K(text)
        if compiled:
            got2 = K("{%s}()" % text)          # and inside a function body (second compiled call site)
            if W.canon(got2) != W.canon(got):
                return verdict(False)
    except Exception as e:
        if type(e).__name__ == "OutsideModel":
            cut(str(e)[:60]); return True
        raise
    finally:
        I.compile_expr = _NO_COMPILE
    want = oracle(v, w, n)
    return verdict(W.canon(got) == W.canon(want))


# ---------------------------------------------------------------------------------------------------- a named verb is looked up at every evaluation
REBIND = {
    "over": ("f/v", lambda fn, v, w, n: x_over(fn, v), None),
    "scan": ("f\\v", lambda fn, v, w, n: x_scan(fn, v), None),
    "over-neutral": ("n f/v", lambda fn, v, w, n: x_over_neutral(fn, n, v), None),
    "each-left": ("n f:\\v", lambda fn, v, w, n: x_each_left(fn, n, v), lambda v, w, n: len(v) > 0),
    "each-right": ("n f:/v", lambda fn, v, w, n: x_each_right(fn, n, v), lambda v, w, n: len(v) > 0),
    "each2": ("v f'w", lambda fn, v, w, n: x_each2(fn, v, w), lambda v, w, n: len(v) > 0 and len(w) > 0),
    "each-pair": ("f:'v", lambda fn, v, w, n: x_each_pair(fn, v), None),
}
_DEFS = [("{x-y}", lambda x, y: x - y), ("{(2*x)+(3*y)+1}", lambda x, y: 2 * x + 3 * y + 1), ("pg", None), ("{y-x}", lambda x, y: y - x)]


def adv_rebind(v: List[int], w: List[int], n: int, d1: int, d2: int, how: int) -> bool:
    """
    pre: len(v) <= CFG['n'] and len(w) <= CFG['n']
    pre: 0 <= d1 <= CFG.get('d1max', 3) and 0 <= d2 <= 3 and d1 != d2
    pre: 0 <= how <= 2
    post: _
    """
    # The verb of an adverb is a NAME.  The same program text is evaluated, the name is rebound (to another Klong function or
    # to a Python callable), and the same text is evaluated again - at top level (parse-cache hit), inside a function defined
    # before the rebinding, and through a variable holding the text's value is NOT enough: the second result must be the
    # expansion over the NEW verb.
    enter()
    text, oracle, pre = REBIND[CFG["prog"]]
    v = list(v); w = list(w)
    if pre is not None and not pre(v, w, n):
        return True
    defs = [pick(_DEFS, d1), pick(_DEFS, d2)]
    fns = [DY["pg"] if d[1] is None else _ext(d[1]) for d in defs]
    K._parse_cache.clear(); K._compiled_cache.clear()
    try:
        _bind(v, w, n)
        K('f::%s' % defs[0][0])
        K('wrap::{%s}' % text)
        r1 = K(text) if how != 1 else K('wrap()')
        if W.canon(r1) != W.canon(oracle(fns[0], v, w, n)):
            return verdict(False)
        if how == 2:
            if defs[1][1] is None:
                K('f::pg')
            else:
                K['f'] = (lambda x, y, _f=defs[1][1]: _f(x, y))
        else:
            K('f::%s' % defs[1][0])
        r2 = K(text) if how != 1 else K('wrap()')
    except Exception as e:
        if type(e).__name__ == "OutsideModel":
            cut(str(e)[:60]); return True
        raise
    return verdict(W.canon(r2) == W.canon(oracle(fns[1], v, w, n)))


def adv_str(n: int, i: int) -> bool:
    """
    pre: 0 <= n <= CFG['n']
    pre: 0 <= i <= 3
    post: _
    """
    # strings, characters and dictionaries: the documented special cases
    enter()
    s = "abcde"[:n]
    K['s'] = s
    which = CFG["prog"]
    try:
        if which == "each-str identity":
            got = K("{x}'s"); want = s
        elif which == "each-str size":
            got = K("#'s"); want = [ord(c) for c in s] if n > 0 else ""
        elif which == "each-pair str":
            got = K(",:'s"); want = [s[j] + s[j + 1] for j in range(n - 1)] if n > 1 else (s if n == 1 else s)
            if n <= 1:
                return verdict(W.canon(got) == W.canon(s))
        elif which == "each-pair str codes":            # the verb sees CHARACTERS (# of a character is its code, # of a string its length)
            if n <= 1:
                return True
            got = K("{(#y)-#x}:'s"); want = [ord(s[j + 1]) - ord(s[j]) for j in range(n - 1)]
        elif which == "each2 str codes":
            if n == 0:
                return True
            got = K("s{(#x)+#y}'s"); want = [2 * ord(c) for c in s]
        elif which == "each-left str codes":
            if n == 0:
                return True
            got = K('0cx{(#x)-#y}:\\s'); want = [ord("x") - ord(c) for c in s]
        elif which == "each-right str codes":
            if n == 0:
                return True
            got = K('0cx{(#x)-#y}:/s'); want = [ord(c) - ord("x") for c in s]
        elif which == "over str codes":
            if n < 2:
                return True
            got = K("{:[x~0cz;y;x]}/s"); want = KGChar(s[0])         # a fold over a string hands characters to the verb
        elif which == "over join str":
            got = K(",/s"); want = s if n != 1 else KGChar(s[0])
        elif which == "each-left str":
            if n == 0:
                return True
            got = K('0cx,:\\s'); want = ["x" + c for c in s]
        elif which == "each-right str":
            if n == 0:
                return True
            got = K('0cx,:/s'); want = [c + "x" for c in s]
        elif which == "each dict":
            keys = [1, 2, 3][:n]
            K('d:::{}')
            for kk in keys:
                K('d,[%d %d]' % (kk, kk * 10))
            got = K("{(x@0)+x@1}'d")
            want = [kk + kk * 10 for kk in keys]
            if n == 0:
                return verdict(W.canon(got) == [])
        elif which == "each2 str":
            got = K("s,'s"); want = [c + c for c in s] if n > 0 else ""
            if n == 0:
                return verdict(W.canon(got) == W.canon(""))
        else:
            raise RuntimeError("prog?")
    except Exception as e:
        if type(e).__name__ == "OutsideModel":
            cut(str(e)[:60]); return True
        raise
    return verdict(W.canon(got) == W.canon(want))


STR_PROGS = ["each-str identity", "each-str size", "each-pair str", "over join str", "each-left str", "each-right str", "each dict",
             "each2 str", "each-pair str codes", "each2 str codes", "each-left str codes", "each-right str codes", "over str codes"]


def bounds(tier):
    q = tier == "quick"
    return {"vector length": "<= %d (two independent vectors v, w; m = [v w] when the lengths agree)" % (3 if q else 4),
            "elements / neutral / atom": "unbounded integers (|n| <= 50 where the verb multiplies)",
            "verbs": sorted(DY) + sorted(MO), "programs": len(PROGS) + len(STR_PROGS),
            "iteration counts": "0..3", "converge/while": "start values 0..8"}


def obligations(tier):
    q = tier == "quick"
    n = 3 if q else 4
    obs = []
    for name in PROGS:
        obs.append({"name": name, "fn": "adv", "cfg": {"prog": name, "n": n}, "timeout": 150 if q else 900})
    for name in STR_PROGS:
        obs.append({"name": name, "fn": "adv_str", "cfg": {"prog": name, "n": 4}, "timeout": 100})
    # the same adverb programs with the expression compiler switched ON (operator verbs the compiler knows, every operand class)
    for name in PROGS:
        kind, _, f = name.rpartition(" ")
        if kind in ("over", "scan", "over atom", "over matrix", "scan matrix", "over nested", "scan nested") and f in ("+", "*", "|", "&", "-", ","):
            obs.append({"name": name + " [compiler on]", "fn": "adv", "cfg": {"prog": name, "n": n, "compiled": True}, "timeout": 150 if q else 900})
    for name in REBIND:
        obs.append({"name": "verb rebound between two evaluations: " + name, "fn": "adv_rebind", "cfg": {"prog": name, "n": 2 if q else 3, "d1max": 0 if q else 3},
                    "timeout": 400 if q else 1500})
    return obs
