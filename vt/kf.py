"""known_findings.json access.  The file is committed, never written at run time.

entry: {"property": "C05", "id": "C05/scan-matrix", "status": "open"|"fixed", "what": "...", "commit": "..."}
open  -> the region is excluded from the symbolic search (harness pre:) and re-checked concretely every run
fixed -> suppresses nothing
"""
import json, os

_PATH = os.path.join(os.path.dirname(os.path.dirname(os.path.abspath(__file__))), "known_findings.json")


def load():
    try:
        return json.load(open(_PATH))["findings"]
    except FileNotFoundError:
        return []


_OPEN = None


def is_open(fid):
    global _OPEN
    if _OPEN is None:
        _OPEN = {e["id"] for e in load() if e.get("status") == "open"}
    return fid in _OPEN
