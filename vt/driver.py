"""./check <ID> --tier quick|thorough : run every obligation of a property, classify, replay, write evidence."""
import sys, os, json, time, argparse, importlib, subprocess, tempfile, shutil, hashlib
from concurrent.futures import ThreadPoolExecutor

ROOT = os.path.dirname(os.path.dirname(os.path.abspath(__file__)))
GEN = os.path.join(ROOT, ".gen")
PY = sys.executable


def _run(argv, env, hard_timeout):
    e = dict(os.environ); e.update(env)
    try:
        p = subprocess.run(argv, env=e, cwd=ROOT, stdout=subprocess.PIPE, stderr=subprocess.PIPE,
                           timeout=hard_timeout, text=True)
        return p.returncode, p.stdout[-4000:], p.stderr[-4000:]
    except subprocess.TimeoutExpired:
        return -9, "", "hard timeout"


def run_check(ob, twin, workdir):
    tag = hashlib.sha1((ob["name"] + str(twin)).encode()).hexdigest()[:12]
    out = os.path.join(workdir, tag + ".json")
    timeout = ob.get("twin_timeout", min(ob["timeout"], 30)) if twin else ob["timeout"]
    env = {"VT_CFG": json.dumps(ob.get("cfg", {})), "VT_TWIN": "1" if twin else "0", "VT_MODE": "sym"}
    env.update(ob.get("env", {}))
    t0 = time.time()
    rc, so, se = _run([PY, "-W", "ignore", "-m", "vt.worker", "check", ob["module"], ob["fn"], str(timeout), out],
                      env, timeout * 1.5 + 60)
    try:
        r = json.load(open(out))
    except Exception:
        r = {"status": "inconclusive" if rc == -9 else "error", "message": "worker rc=%s %s" % (rc, se[-800:]),
             "paths": 0, "solver_calls": 0, "solver_s": 0.0, "wall_s": round(time.time() - t0, 2)}
    r["name"] = ob["name"]; r["is_twin"] = twin
    return r


def run_replay(ob, call, workdir, twin_witness=False):
    tag = hashlib.sha1((ob["name"] + call + str(twin_witness)).encode()).hexdigest()[:12]
    out = os.path.join(workdir, "rp" + tag + ".json")
    callfile = os.path.join(workdir, "rp" + tag + ".call")
    open(callfile, "w").write(call)
    env = {"VT_CFG": json.dumps(ob.get("cfg", {})), "VT_TWIN": "0", "VT_MODE": "real"}
    env.update(ob.get("env", {}))
    rc, so, se = _run([PY, "-W", "ignore", "-m", "vt.worker", "replay", ob["module"], ob["fn"], "@" + callfile, out],
                      env, ob.get("replay_timeout", 120))
    try:
        return json.load(open(out))
    except Exception:
        return {"status": "error", "message": "replay rc=%s %s" % (rc, se[-800:])}


def main():
    ap = argparse.ArgumentParser()
    ap.add_argument("prop")
    ap.add_argument("--tier", default=os.environ.get("VERIF_TIER", "quick"))
    ap.add_argument("--jobs", type=int, default=int(os.environ.get("VT_JOBS", "16")))
    ap.add_argument("--replay", default=None)
    ap.add_argument("--only", default=None, help="substring filter on obligation names (debugging; evidence not written)")
    ap.add_argument("-v", action="store_true")
    a = ap.parse_args()
    seed = int(os.environ.get("VERIF_SEED", "0") or 0)
    pid = a.prop
    t0 = time.time()
    os.makedirs(GEN, exist_ok=True)
    workdir = tempfile.mkdtemp(prefix="w_%s_" % pid, dir=GEN)
    P = importlib.import_module("vt.props." + pid)

    if a.replay:
        rp = json.load(open(a.replay))
        r = run_replay(rp["obligation"], rp["call"], workdir)
        print(json.dumps(r, indent=1))
        shutil.rmtree(workdir, ignore_errors=True)
        if r.get("status") == "ok" and r.get("reproduced"):
            print("VIOLATION property=%s replay=%s" % (pid, a.replay)); sys.exit(1)
        sys.exit(0)

    obs = P.obligations(a.tier)
    for ob in obs:
        ob.setdefault("module", "vt.props." + pid)
    if a.only:
        obs = [o for o in obs if a.only in o["name"]]

    # ---------------- symbolic runs (main + reachability twin), in parallel
    jobs = []
    for ob in obs:
        jobs.append((ob, False))
        if ob.get("twin", True):
            jobs.append((ob, True))
    # longest first
    jobs.sort(key=lambda j: -(j[0]["timeout"] if not j[1] else 1))
    gate_future = None
    gate_pool = ThreadPoolExecutor(max_workers=1)
    if getattr(P, "USES_SYMNP", False) and not a.only:
        # model-conformance gate (DESIGN 2.3): the NumPy model must agree with real NumPy on the repo's own suites
        def _gate():
            rc, so, se = _run([PY, "-W", "ignore", "-m", "vt.conformance", "gate"], {}, 3600)
            try:
                return json.loads(so[so.index("{"):])
            except Exception:
                return {"ok": False, "error": "gate rc=%s %s %s" % (rc, so[-500:], se[-500:])}
        gate_future = gate_pool.submit(_gate)
    with ThreadPoolExecutor(max_workers=a.jobs) as ex:
        results = list(ex.map(lambda j: run_check(j[0], j[1], workdir), jobs))
    gate = gate_future.result() if gate_future is not None else None
    main_r = {r["name"]: r for r in results if not r["is_twin"]}
    twin_r = {r["name"]: r for r in results if r["is_twin"]}
    byname = {o["name"]: o for o in obs}

    # ---------------- replay: counterexamples (real mode) and twin witnesses (conformance)
    violations, harness_errors, inconclusive, discharged, samples = [], [], [], [], []
    validated = 0
    rjobs = []
    for n, r in main_r.items():
        if r["status"] == "cex" and r.get("call"):
            rjobs.append((n, r["call"], False))
    for n, r in twin_r.items():
        if r["status"] == "cex" and r.get("call"):
            rjobs.append((n, r["call"], True))
    with ThreadPoolExecutor(max_workers=a.jobs) as ex:
        rres = list(ex.map(lambda j: run_replay(byname[j[0]], j[1], workdir, j[2]), rjobs))
    replays = {}
    for (n, call, tw), rr in zip(rjobs, rres):
        replays[(n, tw)] = rr

    for n, r in main_r.items():
        ob = byname[n]
        tw = twin_r.get(n)
        reached = (tw is None) or (tw["status"] == "cex")
        if r["status"] == "confirmed":
            if reached:
                discharged.append(n)
            else:
                inconclusive.append({"name": n, "why": "reachability twin did not reach the postcondition (%s)" % (tw or {}).get("status")})
        elif r["status"] == "cex":
            rr = replays.get((n, False))
            if rr is None or rr.get("status") != "ok":
                harness_errors.append({"name": n, "why": "counterexample could not be replayed", "message": r.get("message"), "replay": rr})
            elif rr.get("reproduced"):
                path = os.path.join(GEN, "replays"); os.makedirs(path, exist_ok=True)
                path = os.path.join(path, "%s-%s.json" % (pid, hashlib.sha1(n.encode()).hexdigest()[:10]))
                json.dump({"property": pid, "obligation": ob, "call": r["call"], "message": r.get("message"),
                           "real_mode": rr}, open(path, "w"), indent=1)
                violations.append({"name": n, "call": r["call"], "message": r.get("message"), "replay": path,
                                   "real": rr.get("raised") or rr.get("returned")})
            else:
                harness_errors.append({"name": n, "why": "counterexample does not reproduce on the real implementation "
                                       "(stand-in or harness wrong)", "call": r["call"], "message": r.get("message"), "replay": rr})
        elif r["status"] in ("inconclusive", "pre_unsat"):
            inconclusive.append({"name": n, "why": r["status"] + ": " + str(r.get("message"))[:200]})
        else:
            harness_errors.append({"name": n, "why": "worker error", "message": r.get("message"), "tb": r.get("tb")})
        # twin witness = a concrete sample of the obligation; must hold in real mode as well
        if tw is not None and tw["status"] == "cex":
            rr = replays.get((n, True))
            if rr and rr.get("status") == "ok":
                if not rr.get("reproduced"):
                    validated += 1
                    if len(samples) < 12:
                        samples.append({"obligation": n, "witness": tw["call"], "real_mode": "holds"})
                elif r["status"] == "confirmed":
                    # symbolic run says the property holds for all inputs, the real run of a witness says it fails
                    path = os.path.join(GEN, "replays"); os.makedirs(path, exist_ok=True)
                    path = os.path.join(path, "%s-%s-w.json" % (pid, hashlib.sha1(n.encode()).hexdigest()[:10]))
                    json.dump({"property": pid, "obligation": ob, "call": tw["call"], "real_mode": rr}, open(path, "w"), indent=1)
                    violations.append({"name": n, "call": tw["call"], "message": "witness fails on the real implementation "
                                       "although the modelled run was confirmed", "replay": path,
                                       "real": rr.get("raised") or rr.get("returned")})

    if gate is not None and not gate.get("ok"):
        harness_errors.append({"name": "numpy-model conformance gate", "why": "vt.symnp disagrees with real NumPy", "detail": gate})

    # ---------------- known findings: concrete re-check
    from vt import kf
    kf_lines = []
    probes = getattr(P, "FINDING_PROBES", {})
    # concrete probes of repaired defects run in their own process on plain CPython with the real libraries (vt/probes.py)
    ext = {}
    if not a.only:
        rc, so, se = _run([PY, "-W", "ignore", "-m", "vt.probes", pid], {"VT_MODE": "real"}, 300)
        try:
            ext = json.loads(so.strip().splitlines()[-1])
        except Exception:
            harness_errors.append({"name": "vt.probes", "why": "probe process failed rc=%s %s" % (rc, se[-500:])})
    probes_run = []
    for e in kf.load():
        if e.get("property") != pid:
            continue
        probe = probes.get(e["id"])
        if probe is None and e["id"] not in ext:
            continue
        try:
            if probe is not None:
                still = bool(probe())
            else:
                still = ext[e["id"]]
                if not isinstance(still, bool):
                    raise RuntimeError(still)
        except Exception as ex:
            harness_errors.append({"name": e["id"], "why": "finding probe crashed: %r" % ex}); continue
        probes_run.append({"id": e["id"], "status": e.get("status"), "reproduces": still})
        if e.get("status") == "open":
            if still:
                kf_lines.append("KNOWN-FINDING: property=%s %s" % (pid, e["what"]))
        elif still:  # a fixed defect has come back
            path = os.path.join(GEN, "replays"); os.makedirs(path, exist_ok=True)
            path = os.path.join(path, "%s-%s.json" % (pid, e["id"].replace("/", "_")))
            json.dump({"property": pid, "finding": e, "returned": True}, open(path, "w"), indent=1)
            violations.append({"name": e["id"], "call": "probe", "message": "fixed defect is back: " + e["what"], "replay": path})

    # extra, non-CrossHair obligations (SMT lemmas etc.)
    extra = []
    if hasattr(P, "extra_obligations"):
        for x in P.extra_obligations(a.tier):
            extra.append(x)
            if x["status"] == "confirmed": discharged.append(x["name"])
            elif x["status"] == "violated": violations.append(x)
            elif x["status"] == "error": harness_errors.append(x)
            else: inconclusive.append({"name": x["name"], "why": x.get("why", x["status"])})

    paths = sum(r.get("paths", 0) for r in main_r.values())
    scalls = sum(r.get("solver_calls", 0) for r in results)
    ssecs = sum(r.get("solver_s", 0.0) for r in results)
    cuts = {}
    for r in main_r.values():
        for k, v in (r.get("cuts") or {}).items():
            cuts[k] = cuts.get(k, 0) + v
    wall = time.time() - t0
    per_ob = [{"name": n, "status": r["status"], "paths": r.get("paths"), "solver_s": r.get("solver_s"),
               "wall_s": r.get("wall_s"), "twin": (twin_r.get(n) or {}).get("status")} for n, r in sorted(main_r.items())]
    if not samples:
        samples = [{"obligation": n, "cfg": byname[n].get("cfg")} for n in list(main_r)[:5]]
    try:
        import klongpy as _kp
        repo_root = os.path.dirname(os.path.dirname(os.path.abspath(_kp.__file__)))
        head = subprocess.run(["git", "-C", repo_root, "rev-parse", "--short", "HEAD"], capture_output=True, text=True).stdout.strip()
        dirty = bool(subprocess.run(["git", "-C", repo_root, "status", "--porcelain", "--untracked-files=no"], capture_output=True, text=True).stdout.strip())
    except Exception:
        repo_root, head, dirty = "?", "?", None
    ev = {
        "property_id": pid, "tier": a.tier, "seed": seed, "level": "model_checking",
        "coverage": {
            "states": max(paths, 1), "transitions": max(scalls, 1),
            "traces_validated_against_impl": validated,
            "samples": samples,
            "obligations": len(main_r) + len(extra), "discharged": len(discharged),
            "inconclusive": inconclusive, "harness_errors": harness_errors,
            "evaluations": max(paths, 1), "distinct_nontrivial": len(discharged),
            "rule": "one evaluation = one execution path of a harness explored by CrossHair with z3 deciding every branch; "
                    "distinct_nontrivial = obligations (harness x configuration) confirmed over all paths whose reachability "
                    "twin produced a witness (so the postcondition is reached)",
            "exhaustive": False,
            "functions_encoded": getattr(P, "FUNCTIONS", []),
            "bounds": P.bounds(a.tier) if hasattr(P, "bounds") else getattr(P, "BOUNDS", {}),
            "outside_claim": getattr(P, "OUTSIDE", []),
            "paths_cut_outside_model": cuts,
            "solver": "z3 %s via crosshair-tool 0.0.110" % __import__("z3").get_version_string(),
            "solver_queries": scalls, "solver_s": round(ssecs, 2),
            "per_obligation": per_ob, "extra_obligations": extra,
            "known_findings_reported": kf_lines, "finding_probes": probes_run,
            "model_conformance_gate": ({k: gate.get(k) for k in ("ok", "cases", "agree", "timeouts", "outside_model", "n_disagree")} if gate else None),
            "violations": violations,
            "checker_cmd": "./check %s --tier %s" % (pid, a.tier),
            "source_analysed": {"root": repo_root, "git_head": head, "working_tree_modified": dirty,
                                "note": "the harnesses import and execute these sources directly; nothing is cached between runs"},
        },
        "assumptions": getattr(P, "ASSUMPTIONS", []),
        "wall_s": round(wall, 2), "violations": len(violations),
    }
    if not a.only:
        evdir = os.environ.get("VT_EVIDENCE_DIR") or os.path.join(ROOT, "evidence")
        os.makedirs(evdir, exist_ok=True)
        json.dump(ev, open(os.path.join(evdir, pid + ".json"), "w"), indent=1, default=str)
    shutil.rmtree(workdir, ignore_errors=True)

    print("%s tier=%s obligations=%d discharged=%d inconclusive=%d violations=%d harness_errors=%d paths=%d solver_s=%.1f wall=%.1fs"
          % (pid, a.tier, len(main_r) + len(extra), len(discharged), len(inconclusive), len(violations), len(harness_errors), paths, ssecs, wall))
    if a.v or a.only:
        for p in per_ob: print("  ", p)
    for i in inconclusive: print("  INCONCLUSIVE", i["name"], "-", i["why"][:160])
    for l in kf_lines: print(l)
    for v in violations:
        print("  counterexample %s: %s -> %s" % (v["name"], v.get("call"), v.get("real") or v.get("message")))
        print("VIOLATION property=%s replay=%s" % (pid, v["replay"]))
    for h in harness_errors: print("HARNESS-ERROR", json.dumps(h, default=str)[:1500])
    if violations:
        sys.exit(1)
    if harness_errors:
        sys.exit(3)
    sys.exit(0)


if __name__ == "__main__":
    main()
