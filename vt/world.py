"""Process-wide switches shared by the worker and the harness modules.

MODE  'sym'  : the harness runs under CrossHair tracing, stand-ins (symnp, SymText, model FS ...) are in place
      'real' : the same harness body runs on plain CPython with the real libraries (replay / conformance)
CFG   per-obligation configuration (which verb, which bound ...), set by the worker before analysis
TWIN  reachability twin: verdict() returns False so that reaching the postcondition yields a counterexample
"""
import os, json

MODE = os.environ.get("VT_MODE", "sym")
CFG = json.loads(os.environ.get("VT_CFG", "{}") or "{}")
TWIN = os.environ.get("VT_TWIN", "0") == "1"
PATHS = [0]          # harness body executions (one per explored path)
CUTS = {}            # reason -> count of paths cut as outside the model/claim
NOTES = []           # free-form notes a harness wants in the evidence


def enter():
    """Call at the top of every harness body."""
    PATHS[0] += 1


def verdict(ok):
    """Final value of a harness: the property's truth on this path (forced False in the twin)."""
    if TWIN:
        return False
    return ok


def cut(reason):
    """Record that a path left the claimed domain; the caller then returns True (path not counted as a proof of anything)."""
    CUTS[reason] = CUTS.get(reason, 0) + 1


def cfg(key, default=None):
    return CFG.get(key, default)


def pick(seq, i):
    """seq[i] for a possibly symbolic index i: forks on the index, returns the concrete element"""
    for j in range(len(seq)):
        if i == j:
            return seq[j]
    raise IndexError(i)


def untraced():
    """context manager: CrossHair's tracer off while code runs that touches only values that are CONCRETE on this path (set-up
    of interpreters from literal text, copying references).  Same code, same result, native speed; nothing symbolic may be
    inspected inside.  In real mode it does nothing."""
    if MODE == "sym":
        from crosshair.core import NoTracing
        return NoTracing()
    import contextlib
    return contextlib.nullcontext()
