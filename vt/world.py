"""Process-wide switches shared by the worker and the harness modules.

MODE  'sym'  : the harness runs under CrossHair tracing, stand-ins (symnp, SymText, model FS ...) are in place
      'real' : the same harness body runs on plain CPython with the real libraries (replay / conformance)
CFG   per-obligation configuration (which verb, which bound ...), set by the worker before analysis
TWIN  reachability twin: verdict() returns False so that reaching the postcondition yields a counterexample
"""
import os, json

MODE = os.environ.get("VT_MODE", "sym")
CFG = json.loads(os.environ.get("VT_CFG", "{}") or "{}")
TWIN = os.environ.get("VT_TWIN", "0") == "1"
PATHS = [0]          # harness body executions (one per explored path)
CUTS = {}            # reason -> count of paths cut as outside the model/claim
NOTES = []           # free-form notes a harness wants in the evidence


_HOISTED = []        # [object, snapshot or None]


def hoist(obj):
    """Register an object (an interpreter) that is built once per process and reused by every explored path.  Its attribute
    dictionary is brought back to the state it had when the first path started at the start of every later path: containers
    (dict / list / set / deque attributes: parse cache, compiled cache, and any cache a changed klongpy adds) get their
    first-path contents back IN PLACE, other attributes are re-assigned, new attributes are removed.  Without this a cache
    inside the code under test would carry entries from one explored path into the next, and a counterexample found that way
    could not be replayed in a fresh process.  (The scope stack is an object of its own and is reset by the harnesses.)"""
    _HOISTED.append([obj, None])
    return obj


def _snap(v):
    import collections
    if isinstance(v, dict):
        return ("dict", dict(v))
    if isinstance(v, list):
        return ("list", list(v))
    if isinstance(v, set):
        return ("set", set(v))
    if isinstance(v, collections.deque):
        return ("deque", list(v))
    return ("ref", v)


def _restore_hoisted():
    for ent in _HOISTED:
        obj, snap = ent
        d = obj.__dict__
        if snap is None:
            ent[1] = {k: _snap(v) for k, v in d.items()}
            continue
        for k in [k for k in d if k not in snap]:
            del d[k]
        for k, (kind, v0) in snap.items():
            cur = d.get(k)
            if kind == "dict" and isinstance(cur, dict):
                cur.clear(); cur.update(v0)
            elif kind == "list" and isinstance(cur, list):
                cur[:] = v0
            elif kind == "set" and isinstance(cur, set):
                cur.clear(); cur.update(v0)
            elif kind == "deque" and hasattr(cur, "extend") and hasattr(cur, "clear") and not isinstance(cur, (list, dict, set)):
                cur.clear(); cur.extend(v0)
            else:
                d[k] = v0 if kind == "ref" else {"dict": dict, "list": list, "set": set, "deque": list}[kind](v0)


def enter():
    """Call at the top of every harness body."""
    PATHS[0] += 1
    if _HOISTED:
        if MODE == "sym":
            from crosshair.core import NoTracing
            with NoTracing():
                _restore_hoisted()
        else:
            _restore_hoisted()


def verdict(ok):
    """Final value of a harness: the property's truth on this path (forced False in the twin)."""
    if TWIN:
        return False
    return ok


def cut(reason):
    """Record that a path left the claimed domain; the caller then returns True (path not counted as a proof of anything)."""
    CUTS[reason] = CUTS.get(reason, 0) + 1


def cfg(key, default=None):
    return CFG.get(key, default)


def pick(seq, i):
    """seq[i] for a possibly symbolic index i: forks on the index, returns the concrete element"""
    for j in range(len(seq)):
        if i == j:
            return seq[j]
    raise IndexError(i)


def untraced():
    """context manager: CrossHair's tracer off while code runs that touches only values that are CONCRETE on this path (set-up
    of interpreters from literal text, copying references).  Same code, same result, native speed; nothing symbolic may be
    inspected inside.  In real mode it does nothing."""
    if MODE == "sym":
        from crosshair.core import NoTracing
        return NoTracing()
    import contextlib
    return contextlib.nullcontext()
