"""In-memory stand-in for the file system / clock / executor used by klongpy.db.file_cache (DESIGN 2.6).

It is installed by attribute assignment on the already imported module (`FC.open`, `FC.os`, `FC.time`,
`FC.ThreadPoolExecutor`, `FC.tinfo`): no klongpy source is edited.  Every operation is appended to `fs.log`
so that a crash image can be derived for any prefix of the log (C17), and every operation calls `fs.hook`
(a preemption point for the cooperative scheduler, C18).
"""
import posixpath

ABSENT = None


class Blob:
    """file content with a (possibly symbolic) length and an identity; used at the FileCache level"""
    def __init__(self, n, tag):
        self.n = n; self.tag = tag

    def __len__(self):
        return self.n

    def __repr__(self):
        return "Blob(%r)" % (self.tag,)


class ModelFS:
    def __init__(self):
        self.files = {}          # path -> content (what a reader sees now)
        self.dirs = {"/"}
        self.log = []            # operation log, see crash_image
        self.fds = {}
        self._nfd = 3
        self.hook = None         # hook(op, path): preemption point

    def _pt(self, op, path):
        if self.hook is not None:
            self.hook(op, path)

    # -- os facade
    def makedirs(self, p, exist_ok=False):
        self._pt("makedirs", p)
        parts = []
        q = p
        while q not in self.dirs and q not in ("", "/"):
            if q in self.files:
                raise FileExistsError(q) if q == p else NotADirectoryError(q)   # a regular file where a directory is needed
            parts.append(q); q = posixpath.dirname(q)
        if p in self.dirs and not exist_ok and not parts:
            raise FileExistsError(p)
        for d in reversed(parts):
            self.dirs.add(d); self.log.append(("mkdir", d))

    def open(self, path, mode):
        if "w" in mode:
            self._pt("open-w", path)
            if posixpath.dirname(path) in self.files:
                raise NotADirectoryError(path)
            if posixpath.dirname(path) not in self.dirs:
                raise FileNotFoundError(path)
            if path in self.dirs:
                raise IsADirectoryError(path)
            if path not in self.files:
                self.log.append(("creat", path))
            self.log.append(("trunc", path))
            self.files[path] = b""
            return _WFile(self, path)
        self._pt("open-r", path)
        if path not in self.files:
            raise FileNotFoundError(path)
        return _RFile(self, path)

    def fsync(self, fd):
        path = self.fds[fd]
        self._pt("fsync", path)
        self.log.append(("fsync", path))

    # -- directory operations a refactored writer may use (write to a side file, then rename it over the target)
    def replace(self, src, dst):
        self._pt("rename", src)
        if src not in self.files:
            raise FileNotFoundError(src)
        if dst in self.dirs:
            raise IsADirectoryError(dst)
        if posixpath.dirname(dst) not in self.dirs:
            raise FileNotFoundError(dst)
        self.files[dst] = self.files.pop(src)
        for fd, pth in list(self.fds.items()):
            if pth == src:
                self.fds[fd] = dst                      # an open descriptor follows the file, not the name
        self.log.append(("rename", src, dst))

    def remove(self, path):
        self._pt("unlink", path)
        if path not in self.files:
            raise FileNotFoundError(path)
        del self.files[path]
        self.log.append(("unlink", path))

    def listdir(self, p):
        p = p.rstrip("/") or "/"
        if p not in self.dirs:
            raise FileNotFoundError(p)
        pre = p if p.endswith("/") else p + "/"
        return sorted({q[len(pre):].split("/")[0] for q in list(self.files) + list(self.dirs) if q.startswith(pre) and q != p})


class _WFile:
    """a Python buffered binary writer: write() only fills the user-space buffer; the data reaches the (volatile) file
    at flush() or close().  Payloads in the harnesses are far below io.DEFAULT_BUFFER_SIZE (8 KiB), so nothing is written
    through early - stated in the evidence as an assumption."""
    def __init__(self, fs, path):
        self.fs = fs; self.path = path
        self.fd = fs._nfd; fs._nfd += 1; fs.fds[self.fd] = path
        self.buf = None

    def write(self, data):
        self.fs._pt("write", self.path)
        self.buf = data if self.buf is None or len(self.buf) == 0 else self.buf + data
        return len(data)

    def flush(self):
        if self.buf is None:
            return
        data, self.buf = self.buf, None
        self.fs._pt("flush", self.path)
        cur = self.fs.files[self.path]
        self.fs.files[self.path] = data if len(cur) == 0 else cur + data
        self.fs.log.append(("write", self.path, data))

    def fileno(self):
        return self.fd

    def __enter__(self):
        return self

    def __exit__(self, *a):
        self.flush()
        self.fs._pt("close", self.path)
        self.fs.log.append(("close", self.path))
        return False


class _RFile:
    def __init__(self, fs, path):
        self.fs = fs; self.path = path

    def read(self):
        self.fs._pt("read", self.path)
        return self.fs.files[self.path]

    def __enter__(self):
        return self

    def __exit__(self, *a):
        return False


class _OSPath:
    def __init__(self, fs):
        self.fs = fs
    join = staticmethod(posixpath.join)
    dirname = staticmethod(posixpath.dirname)

    def exists(self, p):
        self.fs._pt("exists", p)
        return p in self.fs.files or p in self.fs.dirs

    def isfile(self, p):
        return p in self.fs.files

    def isdir(self, p):
        return p in self.fs.dirs

    basename = staticmethod(posixpath.basename)
    split = staticmethod(posixpath.split)
    splitext = staticmethod(posixpath.splitext)
    normpath = staticmethod(posixpath.normpath)

    def getsize(self, p):
        self.fs._pt("getsize", p)
        if p not in self.fs.files:
            raise FileNotFoundError(p)
        return len(self.fs.files[p])


class OSFacade:
    sep = "/"

    def __init__(self, fs):
        self.fs = fs; self.path = _OSPath(fs)

    def makedirs(self, p, exist_ok=False):
        return self.fs.makedirs(p, exist_ok)

    def fsync(self, fd):
        return self.fs.fsync(fd)

    def replace(self, src, dst):
        return self.fs.replace(src, dst)

    def rename(self, src, dst):
        return self.fs.replace(src, dst)

    def remove(self, p):
        return self.fs.remove(p)

    def unlink(self, p):
        return self.fs.remove(p)

    def listdir(self, p):
        return self.fs.listdir(p)

    def getcwd(self):
        return "/"


class Clock:
    """monotone, strictly increasing time_ns"""
    def __init__(self):
        self.t = 0

    def time_ns(self):
        self.t += 1
        return self.t


class LazyFuture:
    """the task runs when (and only when) somebody waits for it: one legal schedule of a thread pool"""
    def __init__(self, fn, args):
        self.fn = fn; self.args = args; self._done = False; self._r = None; self._exc = None

    def result(self, timeout=None):
        if not self._done:
            self._done = True
            try:
                self._r = self.fn(*self.args)
            except Exception as e:
                self._exc = e
        if self._exc is not None:
            raise self._exc
        return self._r

    def done(self):
        return self._done


class LazyExecutor:
    def __init__(self, *a, **k):
        self.submitted = []

    def submit(self, fn, *args):
        f = LazyFuture(fn, args); self.submitted.append(f); return f

    def shutdown(self, *a, **k):
        pass


_saved = {}


def install(FC, fs, executor=LazyExecutor, clock=None):
    """re-point the module-level names of klongpy.db.file_cache at the model"""
    if not _saved:
        for n in ("os", "time", "ThreadPoolExecutor", "tinfo"):
            _saved[n] = getattr(FC, n)
        _saved["open"] = FC.__dict__.get("open", None)
    FC.os = OSFacade(fs)
    FC.time = clock or Clock()
    FC.ThreadPoolExecutor = executor
    FC.open = fs.open
    FC.tinfo = lambda m: None


def uninstall(FC):
    if _saved:
        for n in ("os", "time", "ThreadPoolExecutor", "tinfo"):
            setattr(FC, n, _saved[n])
        if _saved["open"] is None:
            if "open" in FC.__dict__:
                del FC.open
        else:
            FC.open = _saved["open"]
        _saved.clear()


# ----------------------------------------------------------------------------------------------- crash images
def crash_image(log, p, choose, model="F"):
    """Durable image after a crash that happens when exactly log[:p] has been issued.

    model F (ext4-like): fsync(file) makes the file's data and size durable together with its directory entry and
                         the directories leading to it.
    model P (strict POSIX): fsync(file) makes data and size durable, but a directory entry created since the last
                         fsync of its directory is NOT durable (klongpy never fsyncs a directory).
    Everything not made durable is decided by `choose(kind, path, n)` -> int in [0, n]:
      ('keep', path, 1)      1: none of the unsynced truncate/writes of `path` reached the disk (old content stays)
      ('prefix', path, n)    length of the surviving prefix of the unsynced data
      ('entry', path, 1)     1: the unsynced directory entry of a newly created file/dir survived
    Returns {path: bytes} of regular files that exist after recovery (directories implied).
    """
    durable = dict(choose.initial) if hasattr(choose, "initial") else {}   # path -> content, durable
    created = set()              # files/dirs whose directory entry was created inside log[:p]
    entry_durable = set()        # of those: entry made durable (model F: by the file's fsync; model P: never)
    pending = {}                 # path -> unsynced data written since the last trunc (None: created only)
    for i in range(len(log)):
        if i >= p:
            break
        op = log[i]
        k = op[0]; path = op[1]
        if k == "mkdir":
            created.add(path)
        elif k == "creat":
            created.add(path)
            pending.setdefault(path, None)
        elif k == "trunc":
            pending[path] = b""
        elif k == "write":
            cur = pending[path]
            pending[path] = op[2] if len(cur) == 0 else cur + op[2]
        elif k == "rename":
            # the file (with whatever part of its data is still unsynced) now lives under the new name.  Model F is the optimistic
            # one: the directory operation itself is taken as durable (data=ordered journals); the DATA is durable only if synced.
            dst = op[2]
            if path in pending:
                pending[dst] = pending.pop(path)
                if pending[dst] is not None:
                    durable.pop(dst, None)              # the old content of dst is gone with the rename
                    created.add(dst); entry_durable.add(dst)
            elif path in durable:
                durable[dst] = durable[path]; pending.pop(dst, None)
                created.discard(dst)
            durable.pop(path, None)
            created.discard(path); entry_durable.discard(path)
        elif k == "unlink":
            pending.pop(path, None); durable.pop(path, None); created.discard(path)
        elif k == "fsync":
            data = pending.pop(path, None)
            if data is not None:
                durable[path] = data
            elif path not in durable:
                durable[path] = b""
            if model == "F":
                entry_durable.add(path)
                d = posixpath.dirname(path)
                while d not in ("", "/"):
                    entry_durable.add(d); d = posixpath.dirname(d)
    memo = {}

    def entry_ok(path):
        """is `path` reachable after recovery (its own entry and every directory above it)"""
        q = path
        while q not in ("", "/"):
            if q in created and q not in entry_durable:
                if q not in memo:
                    memo[q] = choose("entry", q, 1) == 1
                if not memo[q]:
                    return False
            q = posixpath.dirname(q)
        return True
    image = {}
    for path, content in durable.items():
        if path in pending:
            continue
        if entry_ok(path):
            image[path] = content
    for path, data in pending.items():
        if not entry_ok(path):
            continue
        if data is None:                 # created, never truncated/written: empty or (if it existed durably) old
            image[path] = durable.get(path, b"")
            continue
        if choose("keep", path, 1) == 1:  # none of the unsynced truncate/writes reached the disk
            if path in durable:
                image[path] = durable[path]
            elif path in created:
                image[path] = b""
            continue
        n = choose("prefix", path, len(data))
        image[path] = data[:n]
    return image


def fs_from_image(image):
    fs = ModelFS()
    for path, content in image.items():
        fs.files[path] = content
        d = posixpath.dirname(path)
        while d not in ("", "/"):
            fs.dirs.add(d); d = posixpath.dirname(d)
    return fs
