"""Harness-side CrossHair tuning: keep symbolic ints symbolic through formatting/callable()."""
import crosshair.core_and_libs  # noqa: registers default patches
from crosshair.core import _PATCH_REGISTRATIONS, NoTracing
from crosshair.libimpl.builtinslib import SymbolicInt, SymbolicBool, SymbolicFloat, _format as _orig_format

_SYM = (SymbolicInt, SymbolicBool, SymbolicFloat)

def _format(obj, format_spec=""):
    with NoTracing():
        if isinstance(obj, _SYM):
            return "<sym>"
    return _orig_format(obj, format_spec)

def _callable(obj):
    with NoTracing():
        if isinstance(obj, _SYM):
            return False
        return callable(obj)

_PATCH_REGISTRATIONS[format] = _format
_PATCH_REGISTRATIONS[callable] = _callable
