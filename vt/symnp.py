"""symnp - a pure-Python model of exactly the NumPy surface klongpy uses (DESIGN 2.3).

Storage is a flat Python list shared between an array and its basic-slice views (NumPy's view semantics);
elements are ordinary Python objects, so CrossHair symbolic ints flow through every operation.  Anything whose NumPy
semantics is not modelled raises OutsideModel; the harness cuts such paths and reports them.

The model is validated against the real NumPy by vt/conformance.py (run by every check that uses it).
"""
import math as _math
import operator as _op
import itertools as _it

inf = float("inf")
nan = float("nan")
newaxis = None


class OutsideModel(Exception):
    pass


class VisibleDeprecationWarning(UserWarning):
    pass


class _Exceptions:
    VisibleDeprecationWarning = VisibleDeprecationWarning


exceptions = _Exceptions()


# ------------------------------------------------------------------------------------------------ scalar types
class _Meta(type):
    def __instancecheck__(cls, x):
        return cls._check(x)

    def __subclasscheck__(cls, t):
        try:
            return cls._sub(t)
        except Exception:
            return False


class integer(metaclass=_Meta):
    @staticmethod
    def _check(x):
        return False          # python ints are `int`, the model has no separate numpy integer scalars

    @staticmethod
    def _sub(t):
        return t is integer


class floating(metaclass=_Meta):
    @staticmethod
    def _check(x):
        return False

    @staticmethod
    def _sub(t):
        return t is floating


class number(metaclass=_Meta):
    @staticmethod
    def _check(x):
        return False

    @staticmethod
    def _sub(t):
        return t in (number, integer, floating)


class generic(metaclass=_Meta):
    """base class of NumPy scalars: the model has none (reductions and indexing return plain Python numbers)"""
    @staticmethod
    def _check(x):
        return False

    @staticmethod
    def _sub(t):
        return t in (generic, number, integer, floating)


def ndindex(*shape):
    import itertools as _it
    if len(shape) == 1 and isinstance(shape[0], (tuple, list)):
        shape = tuple(shape[0])
    return _it.product(*[range(n) for n in shape])


def ndim(x):
    if isinstance(x, ndarray):
        return x.ndim
    if isinstance(x, (list, tuple)):
        return asarray(x).ndim
    return 0


class dtype:
    def __init__(self, kind, ulen=None):
        self.kind = kind
        self.ulen = ulen

    @property
    def name(self):
        return {"i": "int64", "f": "float64", "O": "object", "b": "bool", "U": "str"}[self.kind]

    def __eq__(self, o):
        if isinstance(o, dtype):
            return o.kind == self.kind
        if o is object or o == "O" or o == "object":
            return self.kind == "O"
        if o is int or o == "int" or o == "int64":
            return self.kind == "i"
        if o is float or o == "float" or o == "float64":
            return self.kind == "f"
        if o is bool or o == "bool":
            return self.kind == "b"
        if isinstance(o, str) and o.startswith("<U"):
            return self.kind == "U" and o == "<U%d" % (self.ulen or 1)
        return False

    def __ne__(self, o):
        return not self.__eq__(o)

    def __hash__(self):
        return hash(self.kind)

    def __repr__(self):
        return "dtype(%r)" % self.name


def _kind_of_dtype(dt):
    if dt is None:
        return None
    if isinstance(dt, dtype):
        return dt.kind
    if dt is object or dt == "O" or dt == "object":
        return "O"
    if dt is int or dt == "int" or dt == "int64":
        return "i"
    if dt is float or dt == "float" or dt == "float64":
        return "f"
    if dt is bool:
        return "b"
    raise OutsideModel("dtype %r" % (dt,))


def issubdtype(dt, t):
    k = _kind_of_dtype(dt)
    if t is integer:
        return k == "i"
    if t is floating:
        return k == "f"
    if t is number:
        return k in ("i", "f")
    raise OutsideModel("issubdtype %r" % (t,))


def _skind(x):
    """kind of a leaf scalar as NumPy's type discovery sees it"""
    if isinstance(x, bool):
        return "b"
    if isinstance(x, int):
        return "i"
    if isinstance(x, float):
        return "f"
    if isinstance(x, str):
        return "U"
    return "O"


def _join_kind(a, b):
    if a is None:
        return b
    if a == b:
        return a
    if "O" in (a, b):
        return "O"
    if "U" in (a, b):
        return "U"           # numbers next to strings become strings in NumPy (klongpy then falls back to object)
    if "f" in (a, b):
        return "f"
    if "i" in (a, b):
        return "i"
    return "b"


def _prod(shape):
    n = 1
    for s in shape:
        n = n * s
    return n


def _cstrides(shape):
    st = []
    acc = 1
    for s in reversed(shape):
        st.append(acc); acc = acc * s
    return tuple(reversed(st))


def _norm_index(i, n):
    if isinstance(i, ndarray):
        if i.ndim != 0:
            raise OutsideModel("array used as scalar index")
        i = i.item()
    if isinstance(i, float):
        raise IndexError("only integers, slices (`:`), ellipsis (`...`), numpy.newaxis (`None`) and integer or boolean arrays are valid indices")
    if i < 0:
        i = i + n
    if i < 0 or i >= n:
        raise IndexError("index out of bounds")
    return i


def _norm_slice(s, n):
    step = 1 if s.step is None else s.step
    if step == 0:
        raise ValueError("slice step cannot be zero")
    if step > 0:
        start = 0 if s.start is None else s.start
        stop = n if s.stop is None else s.stop
        if start < 0:
            start = start + n
            if start < 0:
                start = 0
        elif start > n:
            start = n
        if stop < 0:
            stop = stop + n
            if stop < 0:
                stop = 0
        elif stop > n:
            stop = n
        ln = 0 if stop <= start else (stop - start + step - 1) // step
    else:
        start = n - 1 if s.start is None else s.start
        if s.start is not None:
            if start < 0:
                start = start + n
                if start < 0:
                    start = -1
            elif start >= n:
                start = n - 1
        if s.stop is None:
            stop = -1
        else:
            stop = s.stop
            if stop < 0:
                stop = stop + n
                if stop < 0:
                    stop = -1
            elif stop >= n:
                stop = n - 1
        ln = 0 if stop >= start else (start - stop - step - 1) // (-step)
    return start, step, ln


class ndarray:
    __array_priority__ = 100

    def __init__(self, buf, shape, kind, strides=None, offset=0):
        self._b = buf
        self.shape = tuple(shape)
        self._k = kind
        self._st = tuple(strides) if strides is not None else _cstrides(self.shape)
        self._o = offset
        # plain attributes (not properties): CrossHair evaluates hasattr() outside tracing, and dims may be symbolic
        self.ndim = len(self.shape)
        self.size = _prod(self.shape)

    # ---- basic attributes
    @property
    def dtype(self):
        if self._k == "U":
            m = 1
            for x in self._flat():
                if len(x) > m:
                    m = len(x)
            return dtype("U", m)
        return dtype(self._k)

    @property
    def T(self):
        return transpose(self)

    def __len__(self):
        if not self.shape:
            raise TypeError("len() of unsized object")
        return self.shape[0]

    def _contig(self):
        return self._st == _cstrides(self.shape)

    def _flat(self):
        """elements in row-major order (fresh list)"""
        if not self.shape:
            return [self._b[self._o]]
        if len(self.shape) == 1:
            o, s = self._o, self._st[0]
            return [self._b[o + k * s] for k in range(self.shape[0])]
        out = []
        for idx in _it.product(*[range(s) for s in self.shape]):
            p = self._o
            for i, s in zip(idx, self._st):
                p = p + i * s
            out.append(self._b[p])
        return out

    def _sub(self, i):
        """view of self[i] along axis 0 (i already normalised)"""
        return ndarray(self._b, self.shape[1:], self._k, self._st[1:], self._o + i * self._st[0])

    def __iter__(self):
        if not self.shape:
            raise TypeError("iteration over a 0-d array")
        if len(self.shape) == 1:
            return iter(self._flat())
        return iter([self._sub(i) for i in range(self.shape[0])])

    def item(self, *a):
        if a:
            raise OutsideModel("item(args)")
        if self.size != 1:
            raise ValueError("can only convert an array of size 1 to a Python scalar")
        return self._flat()[0]

    def tolist(self):
        if not self.shape:
            return self._b[self._o]
        if len(self.shape) == 1:
            return self._flat()
        return [self._sub(i).tolist() for i in range(self.shape[0])]

    def copy(self):
        return ndarray(self._flat(), self.shape, self._k)

    def flatten(self):
        return ndarray(self._flat(), (self.size,), self._k)

    def ravel(self):
        if self._contig():
            return ndarray(self._b, (self.size,), self._k, None, self._o) if self._o == 0 or True else None
        return self.flatten()

    def reshape(self, *shape):
        if len(shape) == 1 and isinstance(shape[0], (tuple, list)):
            shape = tuple(shape[0])
        shape = list(shape)
        n = self.size
        if -1 in shape:
            i = shape.index(-1)
            rest = _prod([s for j, s in enumerate(shape) if j != i])
            if rest == 0 or n % rest != 0:
                raise ValueError("cannot reshape array of size %s" % n)
            shape[i] = n // rest
        if _prod(shape) != n:
            raise ValueError("cannot reshape array of size %s into shape %s" % (n, tuple(shape)))
        if self._contig():
            return ndarray(self._b, shape, self._k, None, self._o)
        return ndarray(self._flat(), shape, self._k)

    def astype(self, dt):
        k = _kind_of_dtype(dt)
        if k == self._k:
            return self.copy()
        return ndarray([_cast(x, k) for x in self._flat()], self.shape, k)

    def all(self):
        for x in self._flat():
            if not x:
                return False
        return True

    def any(self):
        for x in self._flat():
            if x:
                return True
        return False

    def sum(self):
        return add.reduce(self.flatten())

    def max(self):
        return max(self)

    def min(self):
        return min(self)

    def trunc(self):
        return trunc(self)

    def sort(self):
        if self.ndim != 1:
            raise OutsideModel("sort nd")
        v = sorted(self._flat())
        for k in range(self.shape[0]):
            self._b[self._o + k * self._st[0]] = v[k]

    def __bool__(self):
        if self.size == 1:
            return bool(self._flat()[0])
        if self.size == 0:
            raise OutsideModel("truth of empty array")
        raise ValueError("The truth value of an array with more than one element is ambiguous. Use a.any() or a.all()")

    def __int__(self):
        if self.size != 1:
            raise TypeError("only length-1 arrays can be converted to Python scalars")
        return int(self._flat()[0])

    def __float__(self):
        if self.size != 1:
            raise TypeError("only length-1 arrays can be converted to Python scalars")
        return float(self._flat()[0])

    def __index__(self):
        if self.size != 1 or self._k != "i":
            raise TypeError("only integer scalar arrays can be converted to a scalar index")
        return self._flat()[0]

    def __repr__(self):
        return "symnp.array(%r, kind=%s)" % (self.tolist(), self._k)

    __str__ = __repr__

    def __hash__(self):
        raise TypeError("unhashable type: 'ndarray'")

    # ---- indexing
    def __getitem__(self, k):
        if isinstance(k, tuple):
            return self._get_tuple(k)
        if isinstance(k, slice):
            if not self.shape:
                raise IndexError("too many indices for array")
            start, step, ln = _norm_slice(k, self.shape[0])
            return ndarray(self._b, (ln,) + self.shape[1:], self._k, (self._st[0] * step,) + self._st[1:],
                           self._o + start * self._st[0])
        if isinstance(k, (list, ndarray)) and not (isinstance(k, ndarray) and k.ndim == 0):
            return self._get_fancy(k)
        if k is None or k is Ellipsis:
            raise OutsideModel("newaxis/ellipsis")
        if isinstance(k, bool):
            raise OutsideModel("bool index")
        if not self.shape:
            raise IndexError("too many indices for array: array is 0-dimensional")
        i = _norm_index(k, self.shape[0])
        if len(self.shape) == 1:
            return self._b[self._o + i * self._st[0]]
        return self._sub(i)

    def _get_tuple(self, k):
        if len(k) > len(self.shape):
            raise IndexError("too many indices for array")
        cur = self
        for j, i in enumerate(k):
            if isinstance(i, slice) or isinstance(i, (list, ndarray)) and not (isinstance(i, ndarray) and i.ndim == 0):
                raise OutsideModel("slice/array inside tuple index")
            if not isinstance(cur, ndarray):
                raise IndexError("too many indices for array")
            cur = cur[i]
        return cur

    def _get_fancy(self, k):
        idx = k if isinstance(k, ndarray) else asarray(k)
        if idx._k == "b":
            if idx.shape != self.shape[:1] or idx.ndim != 1:
                raise OutsideModel("boolean mask shape")
            sel = [i for i, m in enumerate(idx._flat()) if m]
        elif idx._k == "i" or (idx._k == "f" and idx.size == 0):
            if idx.ndim != 1:
                raise OutsideModel("n-d index array")
            sel = [_norm_index(i, self.shape[0]) for i in idx._flat()]
        else:
            raise IndexError("arrays used as indices must be of integer (or boolean) type")
        if len(self.shape) == 1:
            return ndarray([self._b[self._o + i * self._st[0]] for i in sel], (len(sel),), self._k)
        out = []
        for i in sel:
            out.extend(self._sub(i)._flat())
        return ndarray(out, (len(sel),) + self.shape[1:], self._k)

    def _assign(self, value):
        """broadcast `value` into every position of this (view) array"""
        if isinstance(value, (list, tuple)):
            value = asarray(value) if self._k != "O" else asarray(value, dtype=object) if _is_ragged(value) else asarray(value)
        if isinstance(value, ndarray) and value.ndim > 0:
            if value.shape != self.shape:
                v = _broadcast_to(value, self.shape)          # raises ValueError when impossible
            else:
                v = value
            src = v._flat()
        elif isinstance(value, ndarray):
            src = [value.item()] * self.size
        else:
            src = [value] * self.size
        if self._k in ("i", "f", "b"):
            src = [_cast_store(x, self._k) for x in src]
        pos = self._positions()
        for p, x in zip(pos, src):
            self._b[p] = x

    def _positions(self):
        if not self.shape:
            return [self._o]
        out = []
        for idx in _it.product(*[range(s) for s in self.shape]):
            p = self._o
            for i, s in zip(idx, self._st):
                p = p + i * s
            out.append(p)
        return out

    def __setitem__(self, k, value):
        if isinstance(k, tuple):
            if len(k) > len(self.shape):
                raise IndexError("too many indices for array")
            cur = self
            for i in k[:-1]:
                cur = cur[i]
                if not isinstance(cur, ndarray):
                    raise IndexError("too many indices")
            cur[k[-1]] = value
            return
        if isinstance(k, slice):
            self[k]._assign(value)
            return
        if isinstance(k, (list, ndarray)) and not (isinstance(k, ndarray) and k.ndim == 0):
            idx = k if isinstance(k, ndarray) else asarray(k)
            if idx._k == "b":
                sel = [i for i, m in enumerate(idx._flat()) if m]
            elif idx._k == "i" or idx.size == 0:
                sel = [_norm_index(i, self.shape[0]) for i in idx._flat()]
            else:
                raise IndexError("arrays used as indices must be of integer (or boolean) type")
            if isinstance(value, (list, ndarray)) and not (isinstance(value, ndarray) and value.ndim == 0):
                raise OutsideModel("fancy assignment of a sequence")
            for i in sel:
                self[i] = value
            return
        i = _norm_index(k, self.shape[0]) if self.shape else None
        if i is None:
            raise IndexError("too many indices for array")
        if len(self.shape) == 1:
            if isinstance(value, ndarray) and value.ndim == 0:
                value = value.item()
            if self._k == "O":
                self._b[self._o + i * self._st[0]] = value
            else:
                if isinstance(value, (list, tuple, ndarray)):
                    if len(value) != 1:
                        raise ValueError("setting an array element with a sequence.")
                    value = value[0]
                self._b[self._o + i * self._st[0]] = _cast_store(value, self._k)
        else:
            self._sub(i)._assign(value)

    # ---- operators
    def __add__(self, o): return add(self, o)
    def __radd__(self, o): return add(o, self)
    def __sub__(self, o): return subtract(self, o)
    def __rsub__(self, o): return subtract(o, self)
    def __mul__(self, o): return multiply(self, o)
    def __rmul__(self, o): return multiply(o, self)
    def __truediv__(self, o): return divide(self, o)
    def __rtruediv__(self, o): return divide(o, self)
    def __floordiv__(self, o): return floor_divide(self, o)
    def __pow__(self, o): return power(self, o)
    def __rpow__(self, o): return power(o, self)
    def __neg__(self): return negative(self)
    def __abs__(self): return abs(self)
    def __lt__(self, o): return less(self, o)
    def __gt__(self, o): return greater(self, o)
    def __le__(self, o): return less_equal(self, o)
    def __ge__(self, o): return greater_equal(self, o)
    def __eq__(self, o): return equal(self, o)
    def __ne__(self, o): return not_equal(self, o)


class _Unread:
    """a number inside a NumPy string array (would be its text); any use is outside the model"""
    def __init__(self, v):
        self.v = v

    def __len__(self):
        return 21                    # NumPy widens to '<U21' for integers: never equal to '<U1'

    def _no(self, *a, **k):
        raise OutsideModel("element of a mixed number/string array")
    __str__ = __repr__ = __eq__ = __hash__ = __add__ = __radd__ = __lt__ = __gt__ = __iter__ = _no


def isarray(x):
    return isinstance(x, ndarray)


def _is_seq(x):
    return isinstance(x, (list, tuple)) or (isinstance(x, ndarray) and x.ndim > 0)


def _is_ragged(a):
    try:
        _discover(a, False)
        return False
    except ValueError:
        return True


def _cast(x, k):
    if k == "O":
        return x
    if k == "i":
        if isinstance(x, float):
            if x != x or x in (inf, -inf):
                raise OutsideModel("nan/inf to int")
            return _math.trunc(x)
        if isinstance(x, bool):
            return 1 if x else 0
        if isinstance(x, int):
            return x
        if isinstance(x, str):
            return int(x)
        raise TypeError("int() argument must be a string, a bytes-like object or a real number, not '%s'" % type(x).__name__)
    if k == "f":
        if isinstance(x, bool):
            return 1.0 if x else 0.0
        if isinstance(x, (int, float)):
            return float(x)
        if isinstance(x, str):
            return float(x)
        raise TypeError("float() argument must be a string or a real number, not '%s'" % type(x).__name__)
    if k == "b":
        return bool(x)
    raise OutsideModel("cast to " + k)


def _cast_store(x, k):
    """value stored into an existing numeric array"""
    if isinstance(x, (list, tuple, ndarray)):
        raise ValueError("setting an array element with a sequence.")
    if isinstance(x, str):
        if k == "i":
            try:
                return int(x)
            except ValueError:
                raise ValueError("invalid literal for int() with base 10: %r" % (x,))
        if k == "f":
            return float(x)
    if not isinstance(x, (int, float, bool)):
        raise TypeError("int() argument must be a string, a bytes-like object or a real number, not '%s'" % type(x).__name__)
    return _cast(x, k)


def _discover(a, want_object):
    """NumPy's shape discovery. returns (shape, leaves-in-row-major-order, kind-or-None)."""
    if isinstance(a, ndarray):
        return a.shape, a._flat(), a._k
    if not isinstance(a, (list, tuple)):
        return (), [a], _skind(a)
    n = len(a)
    if n == 0:
        return (0,), [], None
    subs = []
    for x in a:
        if isinstance(x, ndarray) and x.ndim == 0:
            x = x.item()
        if _is_seq(x):
            subs.append(_discover(x, want_object))
        else:
            subs.append(((), [x], _skind(x)))
    sh0 = subs[0][0]
    same = True
    for s in subs:
        if s[0] != sh0:
            same = False
    if same:
        leaves = []
        kind = None
        for s in subs:
            leaves.extend(s[1])
            if s[2] is not None:
                kind = _join_kind(kind, s[2])
        if sh0 and sh0[0] == 0 and kind is None:
            kind = None
        return (n,) + tuple(sh0), leaves, kind
    if not want_object:
        raise ValueError("setting an array element with a sequence. The requested array has an inhomogeneous shape")
    # object dtype: the deepest common prefix of the sub-shapes becomes part of the shape
    if any(s[0] == () for s in subs) or any(len(s[0]) == 0 for s in subs):
        common = ()
    else:
        common = []
        for dims in zip(*[s[0] for s in subs]):
            if all(d == dims[0] for d in dims):
                common.append(dims[0])
            else:
                break
        common = tuple(common)
    for x in a:
        if isinstance(x, ndarray) and x.ndim > len(common) and len(common) > 0:
            raise ValueError("could not broadcast input array from shape %s into shape %s" % (x.shape, common))
    leaves = []
    for x in a:
        leaves.extend(_split_depth(x, len(common)))
    return (n,) + common, leaves, "O"


def _split_depth(x, depth):
    if depth == 0:
        return [x]
    out = []
    for y in x:
        out.extend(_split_depth(y, depth - 1))
    return out


def asarray(a, dtype=None):
    k = _kind_of_dtype(dtype)
    if isinstance(a, ndarray):
        if k is None or k == a._k:
            return a
        return a.astype(dtype)
    if isinstance(a, (range, map, filter, zip)) or hasattr(a, "__next__"):
        a = list(a)
    if isinstance(a, dict) or isinstance(a, (set, frozenset)):
        return ndarray([a], (), "O")
    shape, leaves, kind = _discover(a, k == "O")
    if k == "O":
        return ndarray(list(leaves), shape, "O")
    if kind is None:
        kind = "f"                         # NumPy: empty -> float64
    if k is not None:
        return ndarray([_cast(x, k) for x in leaves], shape, k)
    if kind == "U":
        # NumPy would build a string array (numbers become their text); klongpy only ever asks such an array for its dtype kind
        # (kg_asarray then falls back to object) or joins genuine character results.  Numbers are NOT converted here - str() of a
        # symbolic integer would drag the solver into string theory for a value nobody reads; reading an element of such a
        # mixed array is outside the model.
        if all(isinstance(x, str) for x in leaves):
            return ndarray(list(leaves), shape, "U")
        return ndarray([x if isinstance(x, str) else _Unread(x) for x in leaves], shape, "U")
    if kind == "f":
        leaves = [_cast(x, "f") for x in leaves]
    elif kind == "i":
        leaves = [_cast(x, "i") for x in leaves]
    return ndarray(list(leaves), shape, kind)


def array(a, dtype=None, copy=True):
    r = asarray(a, dtype=dtype)
    if r is a:
        return a.copy()
    return r


def copy(a):
    return asarray(a).copy() if not isinstance(a, ndarray) else a.copy()


def empty(shape, dtype=float):
    if isinstance(shape, int):
        shape = (shape,)
    k = _kind_of_dtype(dtype)
    return ndarray([0.0 if k == "f" else 0 if k == "i" else None] * _prod(shape), tuple(shape), k)


def _full_shape(shape):
    if isinstance(shape, ndarray):
        shape = shape.tolist()
    if isinstance(shape, (int,)) and not isinstance(shape, bool):
        shape = (shape,)
    shape = tuple(shape)
    for s in shape:
        if s < 0:
            raise ValueError("negative dimensions are not allowed")
    return shape


def full(shape, fill):
    shape = _full_shape(shape)
    if isinstance(fill, ndarray) and fill.ndim == 0:
        fill = fill.item()
    if _is_seq(fill):
        raise OutsideModel("full with a sequence")
    k = _skind(fill)
    if k == "U":
        k = "U"
    n = _prod(shape)
    return ndarray([fill for _ in range(n)], shape, k)


def ones(shape, dtype=float):
    shape = _full_shape(shape)
    k = _kind_of_dtype(dtype)
    return ndarray([_cast(1, k)] * _prod(shape), shape, k)


def zeros(shape, dtype=float):
    shape = _full_shape(shape)
    k = _kind_of_dtype(dtype)
    return ndarray([_cast(0, k)] * _prod(shape), shape, k)


def arange(n):
    if isinstance(n, float):
        raise OutsideModel("arange(float)")
    return ndarray([i for i in range(n)] if n > 0 else [], (n if n > 0 else 0,), "i")


def seterr(**k):
    return {}


# ------------------------------------------------------------------------------------------------ ufuncs
def _broadcast_shapes(s1, s2):
    n = len(s1) if len(s1) > len(s2) else len(s2)
    a = (1,) * (n - len(s1)) + tuple(s1)
    b = (1,) * (n - len(s2)) + tuple(s2)
    out = []
    for x, y in zip(a, b):
        if x == y:
            out.append(x)
        elif x == 1:
            out.append(y)
        elif y == 1:
            out.append(x)
        else:
            raise ValueError("operands could not be broadcast together with shapes %s %s" % (s1, s2))
    return tuple(out)


def _broadcast_to(a, shape):
    if a.shape == tuple(shape):
        return a
    full_ = _broadcast_shapes(a.shape, shape)
    if full_ != tuple(shape):
        raise ValueError("could not broadcast input array from shape %s into shape %s" % (a.shape, tuple(shape)))
    n = len(shape)
    ash = (1,) * (n - a.ndim) + a.shape
    ast = (0,) * (n - a.ndim) + a._st
    st = tuple(0 if d == 1 and t != 1 else s for d, s, t in zip(ash, ast, shape))
    return ndarray(a._b, shape, a._k, st, a._o)


def _res_kind(name, ka, kb):
    if "O" in (ka, kb):
        return "O"
    if "U" in (ka, kb):
        raise TypeError("ufunc '%s' did not contain a loop with signature matching types" % name)
    return None


def _num_kind(ka, kb):
    if "f" in (ka, kb):
        return "f"
    if "i" in (ka, kb):
        return "i"
    return "b"


class ufunc:
    def __init__(self, name, f, rk):
        self.__name__ = name
        self.f = f          # scalar function
        self.rk = rk        # result kind: callable(ka, kb) -> kind

    def _scalar(self, x, y):
        return self.f(x, y)

    def __call__(self, a, b):
        a_arr = isinstance(a, ndarray)
        b_arr = isinstance(b, ndarray)
        if not a_arr and isinstance(a, (list, tuple)):
            a = asarray(a); a_arr = True
        if not b_arr and isinstance(b, (list, tuple)):
            b = asarray(b); b_arr = True
        if not a_arr and not b_arr:
            ka, kb = _skind(a), _skind(b)
            if "U" in (ka, kb) and self.__name__ not in ("equal", "not_equal"):
                raise TypeError("ufunc '%s' did not contain a loop with signature matching types" % self.__name__)
            r = self.f(a, b)
            if "O" not in (ka, kb) and "U" not in (ka, kb) and self.rk(ka, kb) == "f" and isinstance(r, int):
                r = float(r)
            return r
        ka = a._k if a_arr else _skind(a)
        kb = b._k if b_arr else _skind(b)
        ok = _res_kind(self.__name__, ka, kb)
        sa = a.shape if a_arr else ()
        sb = b.shape if b_arr else ()
        shape = _broadcast_shapes(sa, sb)
        fa = _broadcast_to(a, shape)._flat() if a_arr else [a] * _prod(shape)
        fb = _broadcast_to(b, shape)._flat() if b_arr else [b] * _prod(shape)
        out = [self.f(x, y) for x, y in zip(fa, fb)]
        k = "O" if ok == "O" else self.rk(ka, kb)
        if k == "f":
            out = [float(v) if isinstance(v, int) else v for v in out]
        if ok == "O" and self.rk is _cmp_kind:
            # comparisons of object arrays yield booleans when every result is a plain truth value
            if all(isinstance(v, (bool,)) or (isinstance(v, int)) for v in out):
                k = "b"
                out = [bool(v) for v in out]
        if not shape:
            return out[0]
        return ndarray(out, shape, k)

    def reduce(self, a, axis=0):
        a = asarray(a)
        if a.ndim == 0:
            raise TypeError("cannot reduce on a scalar")
        n = a.shape[0]
        if n == 0:
            ident = {"add": 0.0 if a._k == "f" else 0, "multiply": 1.0 if a._k == "f" else 1}.get(self.__name__)
            if ident is None:
                raise ValueError("zero-size array to reduction operation %s which has no identity" % self.__name__)
            if a.ndim > 1:
                return full(a.shape[1:], ident)
            return ident
        items = list(a)
        acc = items[0]
        for x in items[1:]:
            acc = self(acc, x)
        if a._k == "b" and self.__name__ in ("add", "multiply", "subtract"):
            raise OutsideModel("reduce over booleans")
        return acc

    def accumulate(self, a, axis=0):
        a = asarray(a)
        if a.ndim == 0:
            raise TypeError("cannot accumulate on a scalar")
        items = list(a)
        out = []
        acc = None
        for i, x in enumerate(items):
            acc = x if i == 0 else self(acc, x)
            out.append(acc)
        if a.ndim == 1:
            k = a._k
            if self.__name__ == "divide" and k in ("i", "b"):
                k = "f"
                out = [float(v) for v in out]
            return ndarray(out, (len(out),), k)
        flat = []
        for r in out:
            flat.extend(asarray(r)._flat())
        k = a._k
        if self.__name__ == "divide" and k in ("i", "b"):
            k = "f"; flat = [float(v) for v in flat]
        return ndarray(flat, a.shape, k)


def _cmp_kind(ka, kb):
    return "b"


def _div(x, y):
    if isinstance(x, ndarray) or isinstance(y, ndarray):
        return divide(x, y)
    if y == 0:
        if isinstance(y, (int, float)) and isinstance(x, (int, float)):
            if x == 0 or x != x:
                return nan
            return inf if (x > 0) == (_math.copysign(1.0, y) > 0) else -inf
    return x / y


def _fmod(x, y):
    if isinstance(x, float) or isinstance(y, float):
        if y == 0:
            return nan
        return _math.fmod(x, y)
    if isinstance(x, bool) or isinstance(y, bool):
        x = int(x); y = int(y)
    if not isinstance(x, int) or not isinstance(y, int):
        raise TypeError("ufunc 'fmod' not supported for the input types")
    if y == 0:
        return 0                      # NumPy integer fmod by zero yields 0 (with a warning)
    ax = x if x >= 0 else -x
    ay = y if y >= 0 else -y
    r = ax % ay
    return r if x >= 0 else -r


def _pow(x, y):
    if isinstance(x, ndarray) or isinstance(y, ndarray):
        return power(x, y)
    if isinstance(x, int) and isinstance(y, int) and not isinstance(x, bool):
        if y < 0:
            raise ValueError("Integers to negative integer powers are not allowed.")
        return x ** y
    try:
        r = float(x) ** float(y)
    except ZeroDivisionError:
        return inf
    except OverflowError:
        return inf
    if isinstance(r, complex):
        return nan
    return r


def _mx(x, y):
    if isinstance(x, ndarray) or isinstance(y, ndarray):
        return maximum(x, y)
    if x != x:
        return x
    if y != y:
        return y
    return x if x >= y else y


def _mn(x, y):
    if isinstance(x, ndarray) or isinstance(y, ndarray):
        return minimum(x, y)
    if x != x:
        return x
    if y != y:
        return y
    return x if x <= y else y


def _arith_guard(f):
    def g(x, y):
        if isinstance(x, bool) and isinstance(y, bool):
            raise OutsideModel("boolean arithmetic")
        return f(x, y)
    return g


def _fdiv(x, y):
    if isinstance(x, ndarray) or isinstance(y, ndarray):
        return floor_divide(x, y)
    if y == 0:
        if isinstance(x, float) or isinstance(y, float):
            return nan if x == 0 else (inf if x > 0 else -inf)
        return 0
    return x // y


add = ufunc("add", _arith_guard(_op.add), _num_kind)
subtract = ufunc("subtract", _arith_guard(_op.sub), _num_kind)
multiply = ufunc("multiply", _arith_guard(_op.mul), _num_kind)
divide = ufunc("divide", _div, lambda a, b: "f")
floor_divide = ufunc("floor_divide", _fdiv, _num_kind)
fmod = ufunc("fmod", _fmod, _num_kind)
power = ufunc("power", _pow, _num_kind)
maximum = ufunc("maximum", _mx, _num_kind)
minimum = ufunc("minimum", _mn, _num_kind)
less = ufunc("less", _op.lt, _cmp_kind)
greater = ufunc("greater", _op.gt, _cmp_kind)
less_equal = ufunc("less_equal", _op.le, _cmp_kind)
greater_equal = ufunc("greater_equal", _op.ge, _cmp_kind)
equal = ufunc("equal", _op.eq, _cmp_kind)
not_equal = ufunc("not_equal", _op.ne, _cmp_kind)


def _unary(name, f, kindmap):
    def g(a):
        if isinstance(a, (list, tuple)):
            a = asarray(a)
        if isinstance(a, ndarray):
            if a._k == "U":
                raise TypeError("ufunc '%s' did not contain a loop with signature matching types" % name)
            out = [g(x) if isinstance(x, ndarray) else f(x) for x in a._flat()]
            k = "O" if a._k == "O" else kindmap.get(a._k, a._k)
            if a.ndim == 0:
                return out[0]
            return ndarray(out, a.shape, k)
        if isinstance(a, str):
            raise TypeError("ufunc '%s' did not contain a loop with signature matching types" % name)
        return f(a)
    g.__name__ = name
    return g


def _neg(x):
    if isinstance(x, bool):
        raise TypeError("The numpy boolean negative, the `-` operator, is not supported")
    return -x


def _absf(x):
    return x if x >= 0 else -x


def _truncf(x):
    if isinstance(x, int):
        return x
    if x != x or x in (inf, -inf):
        return x
    return float(_math.trunc(x))


def _floorf(x):
    if isinstance(x, int):
        return x
    if x != x or x in (inf, -inf):
        return x
    return float(_math.floor(x))


def _recip(x):
    if isinstance(x, int) and not isinstance(x, bool):
        if x == 0:
            raise OutsideModel("integer reciprocal of 0")
        return 1 // x if x in (1, -1) else 0
    if x == 0:
        return inf if _math.copysign(1.0, x) > 0 else -inf
    return 1.0 / x


negative = _unary("negative", _neg, {})
abs = _unary("absolute", _absf, {})
absolute = abs
trunc = _unary("trunc", _truncf, {})
floor = _unary("floor", _floorf, {})
reciprocal = _unary("reciprocal", _recip, {})
logical_not = _unary("logical_not", lambda x: not x, {"i": "b", "f": "b", "b": "b"})


def isclose(a, b, rtol=1e-05, atol=1e-08):
    def f(x, y):
        if isinstance(x, int) and isinstance(y, int):
            # |x-y| <= atol + rtol*|y| decided without leaving the integers: 10^8*|x-y| <= 1 + 1000*|y|
            d = x - y
            if d < 0:
                d = -d
            ay = y if y >= 0 else -y
            return 100000000 * d <= 1 + 1000 * ay
        if x == y:
            return True
        if x != x or y != y or x in (inf, -inf) or y in (inf, -inf):
            return False
        return _absf(x - y) <= atol + rtol * _absf(y)
    return ufunc("isclose", f, _cmp_kind)(a, b)


def array_equal(a, b):
    a = asarray(a); b = asarray(b)
    if a.shape != b.shape:
        return False
    for x, y in zip(a._flat(), b._flat()):
        r = x == y
        if isinstance(r, ndarray):
            r = r.all()
        if not r:
            return False
    return True


def where(c):
    c = asarray(c)
    if c.ndim != 1:
        raise OutsideModel("where on n-d")
    idx = [i for i, x in enumerate(c._flat()) if x]
    return (ndarray(idx, (len(idx),), "i"),)


def concatenate(parts, axis=0):
    if isinstance(parts, ndarray):
        parts = list(parts)
    arrs = [asarray(p) for p in parts]
    if not arrs:
        raise ValueError("need at least one array to concatenate")
    nd = arrs[0].ndim
    for a in arrs:
        if a.ndim == 0:
            raise ValueError("zero-dimensional arrays cannot be concatenated")
        if a.ndim != nd:
            raise ValueError("all the input array dimensions except for the concatenation axis must match exactly")
        if a.shape[1:] != arrs[0].shape[1:]:
            raise ValueError("all the input array dimensions except for the concatenation axis must match exactly")
    kind = None
    flat = []
    n0 = 0
    for a in arrs:
        kind = _join_kind(kind, a._k)
        flat.extend(a._flat()); n0 = n0 + a.shape[0]
    if kind == "f":
        flat = [_cast(x, "f") for x in flat]
    if kind == "U" and any(a._k != "U" for a in arrs):
        flat = [str(x) for x in flat]
    return ndarray(flat, (n0,) + arrs[0].shape[1:], kind)


def append(a, v):
    a = asarray(a)
    v = asarray(v)
    return concatenate((a.flatten(), v.flatten() if v.ndim else ndarray([v.item()], (1,), v._k)))


def tile(a, reps):
    a = asarray(a)
    if isinstance(reps, ndarray):
        reps = reps.tolist()
    if isinstance(reps, (list, tuple)):
        reps = list(reps)
        if len(reps) != a.ndim:
            raise OutsideModel("tile reps rank")
        if any(r != 1 for r in reps[1:]):
            raise OutsideModel("tile along inner axes")
        reps = reps[0]
    if reps < 0:
        raise ValueError("negative dimensions are not allowed")
    flat = a._flat()
    out = []
    for _ in range(reps):
        out.extend(flat)
    if a.ndim == 0:
        return ndarray(out, (reps,), a._k)
    return ndarray(out, (a.shape[0] * reps,) + a.shape[1:], a._k)


def resize(a, new_shape):
    a = asarray(a)
    if isinstance(new_shape, int):
        new_shape = (new_shape,)
    new_shape = tuple(new_shape)
    n = _prod(new_shape)
    for s in new_shape:
        if s < 0:
            raise ValueError("all elements of `new_shape` must be non-negative")
    flat = a._flat()
    if n == 0 or not flat:
        return ndarray([_cast(0, a._k) if a._k in "if" else None] * n if n else [], new_shape, a._k)
    out = [flat[i % len(flat)] for i in range(n)]
    return ndarray(out, new_shape, a._k)


def repeat(a, reps):
    a = asarray(a)
    if a.ndim != 1:
        raise OutsideModel("repeat n-d")
    r = reps if isinstance(reps, (list, ndarray)) else [reps] * len(a)
    r = list(r)
    if len(r) != len(a):
        raise ValueError("operands could not be broadcast together")
    out = []
    for x, n in zip(a._flat(), r):
        if isinstance(n, float):
            raise TypeError("Cannot cast array data from dtype('float64') to dtype('int64') according to the rule 'safe'")
        if n < 0:
            raise ValueError("repeats may not contain negative values.")
        for _ in range(n):
            out.append(x)
    return ndarray(out, (len(out),), a._k)


def roll(a, shift, axis=None):
    a = asarray(a)
    if axis not in (None, 0):
        raise OutsideModel("roll axis")
    if axis is None:
        flat = a._flat()
        n = len(flat)
        if n == 0:
            return a.copy()
        s = shift % n
        out = flat[n - s:] + flat[:n - s] if s else list(flat)
        return ndarray(out, a.shape, a._k)
    rows = list(a) if a.ndim > 1 else a._flat()
    n = len(rows)
    if n == 0:
        return a.copy()
    s = shift % n
    rows = rows[n - s:] + rows[:n - s] if s else rows
    if a.ndim == 1:
        return ndarray(rows, a.shape, a._k)
    flat = []
    for r in rows:
        flat.extend(r._flat())
    return ndarray(flat, a.shape, a._k)


def flip(a, axis=None):
    a = asarray(a)
    if axis not in (None, 0) or (axis is None and a.ndim > 1):
        raise OutsideModel("flip axis")
    return a[::-1]


def array_split(a, sections):
    a = asarray(a) if not isinstance(a, ndarray) else a
    n = len(a)
    if isinstance(sections, ndarray):
        sections = sections.tolist()
    if isinstance(sections, (list, tuple)):
        cuts = [0] + list(sections) + [n]
    else:
        k = sections
        if isinstance(k, float):
            raise OutsideModel("float sections")
        if k <= 0:
            raise ValueError("number sections must be larger than 0.")
        each, extras = n // k, n % k
        sizes = [each + 1] * extras + [each] * (k - extras)
        cuts = [0]
        for s in sizes:
            cuts.append(cuts[-1] + s)
    out = []
    for i in range(len(cuts) - 1):
        out.append(a[cuts[i]:cuts[i + 1]])
    return out


def transpose(a):
    a = asarray(a)
    if a.ndim < 2:
        return a
    shape = tuple(reversed(a.shape)); st = tuple(reversed(a._st))
    return ndarray(a._b, shape, a._k, st, a._o)


def prod(a):
    a = asarray(a)
    r = 1
    for x in a._flat():
        r = r * x
    if a._k == "f":
        r = float(r)
    return r


def max(a):
    a = asarray(a)
    flat = a._flat()
    if not flat:
        raise ValueError("zero-size array to reduction operation maximum which has no identity")
    if a._k in ("O", "U") and any(isinstance(x, ndarray) for x in flat):
        raise OutsideModel("max over nested object array")
    m = flat[0]
    for x in flat[1:]:
        if x != x:
            return x
        if x > m:
            m = x
    return m


def min(a):
    a = asarray(a)
    flat = a._flat()
    if not flat:
        raise ValueError("zero-size array to reduction operation minimum which has no identity")
    if a._k in ("O", "U") and any(isinstance(x, ndarray) for x in flat):
        raise OutsideModel("min over nested object array")
    m = flat[0]
    for x in flat[1:]:
        if x != x:
            return x
        if x < m:
            m = x
    return m


def cumsum(a):
    a = asarray(a)
    return add.accumulate(a.flatten())


def cumprod(a):
    a = asarray(a)
    return multiply.accumulate(a.flatten())


def argsort(a):
    a = asarray(a)
    if a.ndim != 1:
        raise OutsideModel("argsort n-d")
    flat = a._flat()
    # stable insertion sort on indices, comparisons only (keeps symbolic elements symbolic)
    idx = []
    for i in range(len(flat)):
        j = len(idx)
        while j > 0 and flat[idx[j - 1]] > flat[i]:
            j -= 1
        idx.insert(j, i)
    return ndarray(idx, (len(idx),), "i")


def unique(a, return_inverse=False, return_index=False, axis=None):
    a = asarray(a)
    if axis is not None:
        if axis != 0 or a.ndim != 2:
            raise OutsideModel("unique axis")
        rows = [r._flat() for r in a]
        order = []
        for i in range(len(rows)):
            j = len(order)
            while j > 0 and _lex_gt(rows[order[j - 1]], rows[i]):
                j -= 1
            order.insert(j, i)
        vals = []; first = []
        for i in order:
            if not vals or vals[-1] != rows[i]:
                vals.append(rows[i]); first.append(i)
        flat = []
        for r in vals:
            flat.extend(r)
        u = ndarray(flat, (len(vals), a.shape[1]), a._k)
        if return_index:
            return u, ndarray(first, (len(first),), "i")
        return u
    if a.ndim != 1:
        a = a.flatten()
    flat = a._flat()
    if a._k == "O" and any(isinstance(x, (ndarray, list)) for x in flat):
        raise OutsideModel("unique over nested arrays")
    order = []
    for i in range(len(flat)):
        j = len(order)
        while j > 0 and flat[order[j - 1]] > flat[i]:
            j -= 1
        order.insert(j, i)
    vals = []; inv = [0] * len(flat); first = []
    for i in order:
        if not vals or vals[-1] != flat[i]:
            vals.append(flat[i]); first.append(i)
        inv[i] = len(vals) - 1
    u = ndarray(vals, (len(vals),), a._k)
    out = [u]
    if return_index:
        out.append(ndarray(first, (len(first),), "i"))
    if return_inverse:
        out.append(ndarray(inv, (len(inv),), "i"))
    return out[0] if len(out) == 1 else tuple(out)


def _lex_gt(r1, r2):
    for x, y in zip(r1, r2):
        if x > y:
            return True
        if x < y:
            return False
    return False


def put(a, ind, v):
    if not isinstance(a, ndarray):
        raise TypeError("put: argument 1 must be numpy.ndarray")
    ind = asarray(ind)
    idx = ind._flat() if ind.ndim else [ind.item()]
    n = a.size
    vs = asarray(v)._flat() if _is_seq(v) else [v]
    if not vs:
        return
    pos = a._positions()
    for j, i in enumerate(idx):
        i = _norm_index(i, n)
        x = vs[j % len(vs)]
        a._b[pos[i]] = x if a._k == "O" else _cast_store(x, a._k)


class _Random:
    @staticmethod
    def random(*a):
        raise OutsideModel("random")


random = _Random()
