"""Model-gap companion for C05 (DESIGN 12.4): vt.symnp has no NumPy scalars, so the symbolic obligations cannot see code whose
behaviour differs between a Python number and a numpy.int64 / numpy.float64 (division by zero, isinstance(x, float), ...).
This module runs, on plain CPython with the REAL NumPy, every compilable program of the C05 grammar over a small table of bindings
that are NumPy scalars / 0-d arrays / computed reals, compiled against interpreted.  It is a concrete sweep, not a solver verdict, and
is reported as such in the evidence (extra obligation 'numpy-scalar bindings').

    python -m vt.npscalars <depth>    -> JSON {"cases": n, "disagree": [...]}
"""
import sys, json, itertools


def main(depth):
    import numpy as np
    import klongpy.interpreter as I
    from klongpy import KlongInterpreter
    from vt.probes import _canon
    real_compile = I.compile_expr
    progs = ["a%b", "b%a", "a+b", "a*b", "a-b", "a^2", "a=b", "a<b", "-a", "(a%b)+a", "a%(b-b)", "(a+b)%a", "a%0", "3%a"]
    if depth >= 2:
        progs += ["(a*b)%(a-a)", "a%(+/v)", "(+/v)%a", "(a^2)%b", "-(a%b)"]
    binds = [("np.float64(2.5)", np.float64(2.5)), ("np.float64(0.0)", np.float64(0.0)), ("np.int64(3)", np.int64(3)),
             ("np.int64(0)", np.int64(0)), ("np.array(4.0) 0-d", np.array(4.0)), ("1.5+1 (computed)", None), ("2 (int)", 2), ("0 (int)", 0)]
    bad = []; n = 0
    for (na, va), (nb, vb) in itertools.product(binds, binds):
        for p in progs:
            out = []
            for comp in (True, False):
                I.compile_expr = real_compile if comp else (lambda ast, klong: None)
                try:
                    k = KlongInterpreter()
                    k['v'] = np.array([0, 0])
                    for name, val in (("a", va), ("b", vb)):
                        if val is None:
                            k(name + "::1.5+1")
                        else:
                            k[name] = val
                    for form in (p, "f::{0,(%s)};f()" % p):
                        try:
                            out.append((comp, form, "ok", repr(_canon(k(form)))))
                        except Exception as e:
                            out.append((comp, form, "err", None))
                finally:
                    I.compile_expr = real_compile
            c = [o[2:] for o in out if o[0]]; i = [o[2:] for o in out if not o[0]]
            n += 1
            if c != i:
                bad.append({"prog": p, "a": na, "b": nb, "compiled": c, "interpreted": i})
    print(json.dumps({"cases": n, "disagree": bad[:20], "n_disagree": len(bad), "classes": sorted(set((b["prog"], b["a"], b["b"]) for b in bad))[:60]}))


if __name__ == "__main__":
    main(int(sys.argv[1]) if len(sys.argv) > 1 else 1)
