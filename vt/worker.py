"""Run ONE obligation (or replay one counterexample) in this process.

check :  python -m vt.worker check  <module> <function> <timeout_s> <out.json>      (env VT_CFG, VT_TWIN)
replay:  python -m vt.worker replay <module> <function> <call-expr|@file> <out.json> (env VT_CFG, VT_MODE=real)
"""
import sys, os, json, time, ast, traceback, importlib, collections


def _load(module, fn):
    m = importlib.import_module(module)
    return m, getattr(m, fn)


def parse_call(expr, glb):
    """'f(1, b=[2])' -> (args, kwargs) evaluated in the harness module's namespace.
    The whole call is evaluated at once so that CrossHair's aliasing notation f(v1:=[], v1) keeps its sharing."""
    expr = expr.strip()
    node = ast.parse(expr, mode="eval").body
    if not isinstance(node, ast.Call):
        raise ValueError("not a call: " + expr)
    node.func = ast.Name(id="__vt_capture__", ctx=ast.Load())
    ns = dict(glb)
    ns["__vt_capture__"] = lambda *a, **k: (list(a), k)
    tree = ast.fix_missing_locations(ast.Expression(node))
    return eval(compile(tree, "<cex>", "eval"), ns)


def split_message(msg):
    """CrossHair message -> (kind, call expression or None)."""
    call = None
    if "when calling " in msg:
        call = msg.split("when calling ", 1)[1]
        for stop in (" (which returns", " with "):
            # ' with ' only terminates when it follows the closing paren of the call
            pass
        # cut at the matching close paren of the call
        depth = 0; instr = None; esc = False
        for i, ch in enumerate(call):
            if instr:
                if esc: esc = False
                elif ch == "\\": esc = True
                elif ch == instr: instr = None
                continue
            if ch in "'\"": instr = ch
            elif ch in "([{": depth += 1
            elif ch in ")]}":
                depth -= 1
                if depth == 0:
                    call = call[: i + 1]
                    break
    return call


def do_check(module, fn, timeout, out):
    t0 = time.time()
    import vt.chpatch  # noqa: CrossHair tuning (DESIGN 2.2)
    import crosshair.statespace as SS
    from crosshair.core import analyze_function, run_checkables
    from crosshair.options import AnalysisOptionSet
    from crosshair.statespace import MessageType
    from vt import world

    solver = {"calls": 0, "secs": 0.0, "unknown": 0}
    _orig = SS.solver_is_sat

    def timed(s, *exprs):
        t = time.perf_counter(); solver["calls"] += 1
        try:
            return _orig(s, *exprs)
        except SS.UnknownSatisfiability:
            solver["unknown"] += 1
            raise
        finally:
            solver["secs"] += time.perf_counter() - t
    SS.solver_is_sat = timed

    res = {"module": module, "fn": fn, "cfg": world.CFG, "twin": world.TWIN, "timeout": timeout}
    try:
        m, f = _load(module, fn)
        opts = AnalysisOptionSet(per_condition_timeout=float(timeout), report_all=True,
                                 per_path_timeout=float(os.environ.get("VT_PATH_TIMEOUT", timeout)),
                                 max_uninteresting_iterations=sys.maxsize)
        checkables = analyze_function(f, opts)
        if not checkables:
            res.update(status="error", message="no checkable conditions")
        else:
            msgs = run_checkables(checkables)
            worst = None
            for mm in msgs:
                if worst is None or worst.state < mm.state:
                    worst = mm
            st = worst.state if worst else None
            status = {MessageType.CONFIRMED: "confirmed", MessageType.CANNOT_CONFIRM: "inconclusive",
                      MessageType.PRE_UNSAT: "pre_unsat", MessageType.POST_FAIL: "cex",
                      MessageType.EXEC_ERR: "cex", MessageType.POST_ERR: "cex"}.get(st, "error")
            res.update(status=status, state=str(st), message=worst.message if worst else "",
                       call=split_message(worst.message) if worst and status == "cex" else None,
                       tb=(worst.traceback or "")[-1500:] if worst and status in ("cex", "error") else "")
    except BaseException as e:  # worker-level failure is a harness error, never a verdict
        res.update(status="error", message="%s: %s" % (type(e).__name__, e), tb=traceback.format_exc()[-3000:])
    res.update(paths=world.PATHS[0], cuts=dict(world.CUTS), notes=list(world.NOTES)[:20],
               solver_calls=solver["calls"], solver_s=round(solver["secs"], 3), solver_unknown=solver["unknown"],
               wall_s=round(time.time() - t0, 3))
    json.dump(res, open(out, "w"))


def do_replay(module, fn, call, out):
    """Concrete run on plain CPython with the real libraries. reproduced = returns falsy or raises Exception."""
    t0 = time.time()
    from vt import world
    res = {"module": module, "fn": fn, "cfg": world.CFG, "call": call, "mode": world.MODE}
    try:
        m, f = _load(module, fn)
        args, kw = parse_call(call, vars(m))
        try:
            r = f(*args, **kw)
            res.update(returned=repr(r)[:300], reproduced=not bool(r), raised=None)
        except Exception as e:
            res.update(returned=None, reproduced=True, raised="%s: %s" % (type(e).__name__, str(e)[:300]),
                       tb=traceback.format_exc()[-2000:])
        res["status"] = "ok"
    except BaseException as e:
        res.update(status="error", message="%s: %s" % (type(e).__name__, e), tb=traceback.format_exc()[-3000:])
    res["wall_s"] = round(time.time() - t0, 3)
    json.dump(res, open(out, "w"))


if __name__ == "__main__":
    mode = sys.argv[1]
    if mode == "check":
        do_check(sys.argv[2], sys.argv[3], float(sys.argv[4]), sys.argv[5])
    else:
        call = sys.argv[4]
        if call.startswith("@"):
            call = open(call[1:]).read()
        do_replay(sys.argv[2], sys.argv[3], call, sys.argv[5])
