"""Select the array world for a harness process: 'sym' = the list-backed model (vt.symnp) installed into the already
imported klongpy modules, 'real' = NumPy untouched.  No klongpy source is edited: module-level names that refer to
NumPy are re-pointed by attribute assignment, and the backend is registered through klongpy's own register_backend."""
import sys, types
from vt import world

if world.MODE == "sym":
    from vt import symnp as NP
else:
    import numpy as NP

import klongpy                      # noqa: F401  (imports every core module)
import klongpy.backends.numpy_backend as NB
import klongpy.backends.base as BB
from klongpy.backends import register_backend
import numpy as _real_numpy


class SymBackend(NB.NumpyBackendProvider):
    """the real NumpyBackendProvider (kg_asarray, vec_fn*, kg_equal, compile_expr_ir, ...) running over the model"""
    def __init__(self, device=None):
        self._np = NP

    @property
    def name(self):
        return "sym"

    def is_array(self, x):
        return isinstance(x, NP.ndarray)


def install():
    if world.MODE != "sym":
        return
    for name, mod in list(sys.modules.items()):
        if not name.startswith("klongpy") or mod is None:
            continue
        if name.startswith("klongpy.backends.torch") or name in ("klongpy.autograd",):
            continue
        for attr in ("np", "numpy", "bknp", "np_backend"):
            v = mod.__dict__.get(attr)
            if v is _real_numpy or (isinstance(v, types.ModuleType) and v.__name__ == "numpy"):
                setattr(mod, attr, NP)
    register_backend("sym", SymBackend)


install()
BACKEND_NAME = "sym" if world.MODE == "sym" else "numpy"


def backend():
    from klongpy.backends import get_backend
    return get_backend(BACKEND_NAME)


def interpreter():
    from klongpy import KlongInterpreter
    from vt import world
    return world.hoist(KlongInterpreter(backend=BACKEND_NAME))


def arr(x):
    """Python nested lists -> array of the current world, through the REAL kg_asarray"""
    return _BK.kg_asarray(x)


_BK = backend()


def canon(x):
    """canonical, world-independent form of a Klong value: nested lists + kind tags"""
    from klongpy.core import KGChar, KGSym, KLONG_UNDEFINED, is_char
    if isinstance(x, NP.ndarray):
        if x.ndim == 0:
            return canon(x.item())
        return [canon(y) for y in x]
    if isinstance(x, (list, tuple)):
        return [canon(y) for y in x]
    if x is KLONG_UNDEFINED:
        return ("undef",)
    if is_char(x):
        return ("c", str(x))
    if isinstance(x, KGSym):
        return ("sym", str(x))
    if isinstance(x, str):
        return ("s", str(x))
    if isinstance(x, bool):
        return ("i", 1 if x else 0)
    if world.MODE == "real":
        if isinstance(x, _real_numpy.integer):
            return ("i", int(x))
        if isinstance(x, _real_numpy.floating):
            return ("f", "nan") if x != x else ("f", float(x))
        if isinstance(x, _real_numpy.bool_):
            return ("i", int(x))
    if isinstance(x, int):
        return ("i", x)
    if isinstance(x, float):
        return ("f", "nan") if x != x else ("f", x)
    if isinstance(x, dict):
        return ("d", [(canon(k), canon(v)) for k, v in x.items()])
    return ("o", type(x).__name__)


def kind(x):
    """dtype kind of an array in either world"""
    return x.dtype.kind if isinstance(x, NP.ndarray) else None
