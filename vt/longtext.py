"""Companion of C12 for what a symbolic text of length <= 4 cannot show: super-polynomial work on LONG malformed input that happens
inside one C call (a backtracking regular expression), where no Python-level step counter sees it.  Families of unterminated / unclosed
texts (an opener followed by k filler characters, k up to 4000) are parsed by the real prog() in child processes under a wall-clock
cap.  This is a concrete sweep of a parametrised family, NOT a solver verdict, and is reported as such in the evidence.

    python -m vt.longtext child <family index>      parses the family's texts in order, prints one line per text
    python -m vt.longtext                           -> JSON {"families": n, "texts": m, "slow": [...]}
"""
import sys, os, json, time, subprocess

OPENERS = ['"', ':"', '0c', '[', '{', '(', '.comment("x', 'a::"', '["', ':[1;"', 'f("']
FILLERS = ['a', '1', ' ', 'a b ', "a'", '""a']
SIZES = [8, 16, 24, 32, 48, 4000]
CAP = 60.0


def texts(fi):
    op = OPENERS[fi]
    for f in FILLERS:
        for k in SIZES:
            yield op + (f * k)[:k]


def child(fi):
    from klongpy import KlongInterpreter
    sys.setrecursionlimit(100000)
    K = KlongInterpreter()
    for t in texts(fi):
        t0 = time.time()
        try:
            K.prog(t)
        except RecursionError:
            pass
        except Exception:
            pass
        print(json.dumps({"len": len(t), "head": t[:12], "s": round(time.time() - t0, 3)}), flush=True)


def main():
    procs = []
    env = dict(os.environ)
    for fi in range(len(OPENERS)):
        procs.append((fi, subprocess.Popen([sys.executable, "-W", "ignore", "-m", "vt.longtext", "child", str(fi)], stdout=subprocess.PIPE,
                                           stderr=subprocess.DEVNULL, text=True, env=env)))
    slow = []; n = 0
    deadline = time.time() + CAP
    for fi, p in procs:
        try:
            out, _ = p.communicate(timeout=max(1.0, deadline - time.time()))
        except subprocess.TimeoutExpired:
            p.kill(); out, _ = p.communicate()
            done = [json.loads(l) for l in out.splitlines() if l.startswith("{")]
            nxt = list(texts(fi))[len(done)]
            slow.append({"family": OPENERS[fi], "text_head": nxt[:16], "text_len": len(nxt), "why": "no answer within %.0f s (whole family)" % CAP,
                         "finished_before": len(done)})
            n += len(done)
            continue
        done = [json.loads(l) for l in out.splitlines() if l.startswith("{")]
        n += len(done)
        if len(done) != len(FILLERS) * len(SIZES):
            slow.append({"family": OPENERS[fi], "why": "child ended early", "finished_before": len(done)})
    print(json.dumps({"families": len(OPENERS), "texts": n, "slow": slow}))


if __name__ == "__main__":
    if len(sys.argv) > 2 and sys.argv[1] == "child":
        child(int(sys.argv[2]))
    else:
        main()
