"""Concrete re-checks of the defects recorded as `fixed` in known_findings.json (plain CPython, real NumPy, public API).

    python -m vt.probes <PROPERTY>      -> one JSON object {finding id: true if the defect reproduces again}

Run by the driver in a separate process (the driver process itself may have the NumPy model installed).  A fixed entry
suppresses nothing: if its probe reproduces, the driver prints a VIOLATION line.  Every probe is the failing input
of the original counterexample, taken from the `fix:` commit message.
"""
import sys, os, json, signal, tempfile, shutil, pickle, copy


def _K():
    from klongpy import KlongInterpreter
    return KlongInterpreter()


def _canon(v):
    import numpy as np
    from klongpy.core import KGChar, KGSym
    if isinstance(v, np.ndarray):
        return [_canon(x) for x in v]
    if isinstance(v, (list, tuple)):
        return [_canon(x) for x in v]
    if isinstance(v, KGChar):
        return ("c", str(v))
    if isinstance(v, KGSym):
        return ("sym", str(v))
    if isinstance(v, str):
        return ("s", v)
    if isinstance(v, (bool, np.bool_)):
        return ("i", int(v))
    if isinstance(v, (int, np.integer)):
        return ("i", int(v))
    if isinstance(v, (float, np.floating)):
        return ("f", float(v))
    if isinstance(v, dict):
        return ("d", sorted((repr(_canon(k)), _canon(x)) for k, x in v.items()))
    return ("o", type(v).__name__)


def _i(*xs):
    return [("i", x) for x in xs]


def _differs(src, want):
    """True (defect is back) if evaluating src raises or gives something other than want"""
    try:
        return _canon(_K()(src)) != want
    except Exception:
        return True


# ------------------------------------------------------------------------------------------------- C01 / C02
def c01_split():
    return _differs('3:#[1 2 3 4]', [_i(1, 2, 3), _i(4)]) or _differs('3:#"abcdefg"', [("s", "abc"), ("s", "def"), ("s", "g")])


def c01_rotate():
    return _differs('1:+[[1 2] [3 4] [5 6]]', [_i(5, 6), _i(1, 2), _i(3, 4)])


def c01_reverse_atom():
    return _differs('|1', ("i", 1))


def c01_format_list():
    return _differs('$[1 2]', [("s", "1"), ("s", "2")])


def c01_first_string():
    return _differs('*"abc"', ("c", "a"))


def c01_max_nested():
    return _differs('[1 [2 3]]|[0 [5 1]]', [("i", 1), _i(5, 3)])


def c01_min_nested():
    return _differs('[1 [2 3]]&2', [("i", 1), _i(2, 2)])


def c01_rem_nested():
    return _differs('7![2 [3 4]]', [("i", 1), _i(1, 3)])


def c01_take_matrix():
    return _differs('3#[[1 2 3] [4 5 6]]', [_i(1, 2, 3), _i(4, 5, 6), _i(1, 2, 3)])


def c01_group_order():
    return _differs('=[7 3 7 5 3]', [_i(0, 2), _i(1, 4), _i(3)])


def c01_match_int():
    return _differs('99999~100000', ("i", 0)) or _differs('[1 [99999]]~[1 [100000]]', ("i", 0))


def c01_list_cells():
    return (_differs('a::[[1 [2 [3]]] [[[4]] 5]];,/a@0', [("i", 1), ("i", 2), _i(3)])
            or _differs("{,/:~x}'[[1 [2 [3]]] [[[4]] 5]]", [_i(1, 2, 3), _i(4, 5)]))


def c02_over_char():
    return _differs(',/"a"', ("c", "a"))


def c02_string_chars():
    return (_differs('"ab"{(#x)+#y}\'"ab"', _i(194, 196)) or _differs('{x}/"ab"', ("c", "a"))
            or _differs('0cx{#y}/"ab"', ("i", 98)))


# ------------------------------------------------------------------------------------------------- C03 / C04 / C05
def c03_projection_order():
    return _differs('f::{(100*x)+(10*y)+z};p::f(7;;);q::p(;2);q(3)', ("i", 732))


def c03_dotf_locals():
    return _differs('{[a];a::x;:[x>0;.f(x-1);0];a}(3)', ("i", 3))


def c04_module_cache():
    """the second evaluation of the text '.module(:m)' in one session must select module m like the first"""
    try:
        k = _K()
        k('.module(:m)'); k('a::1'); k('.module(0)')
        first = k.current_module()
        k('.module(:m)')                              # identical text, same active module: parse-cache hit
        second = str(k.current_module())
        k('b::2'); k('.module(0)')
        fresh = _K(); fresh('.module(:m)')
        return first is not None or second != str(fresh.current_module())
    except Exception:
        return True


def c05_compiled_kinds():
    try:
        k = _K()
        k('g::{0,x*y}'); k('g(2;3)')
        try:
            r = k('g("ab";2)')
        except Exception:
            return False                           # a fresh interpreter raises as well
        k2 = _K(); k2('g::{0,x*y}')
        try:
            r2 = k2('g("ab";2)')
        except Exception:
            return True
        return _canon(r) != _canon(r2)
    except Exception:
        return True


def c05_reduce_scan():
    return (_differs('e::[];+/e', []) or _differs('a::5;+\\a', ("i", 5))
            or _differs('m::[[1 2] [3 4]];+\\m', [_i(1, 2), _i(4, 6)]))


def c05_power_kind():
    return _differs('a::1;a^-2', ("i", 1)) or _differs('a::4.0;a^2', ("i", 16))


def c05_divide_numpy_dividend():
    from klongpy.core import KLONG_UNDEFINED
    try:
        return _K()('a::0;v::[0 0];(+/v)%a') is not KLONG_UNDEFINED
    except Exception:
        return True


def c05_divide_numpy_zero():
    from klongpy.core import KLONG_UNDEFINED
    try:
        return _K()('a::[0 0];1%(+/a)') is not KLONG_UNDEFINED
    except Exception:
        return True


# ------------------------------------------------------------------------------------------------- C07 / C09
def c07_grad_in_place():
    import numpy as np
    try:
        k = _K()
        n = {"n": 0}

        def boom(x):
            n["n"] += 1
            if n["n"] == 4:
                raise RuntimeError("boom")
            return x
        k['boom'] = boom
        k['a'] = np.array([1.0, 2.0, 3.0])
        k('f::{+/boom(x)*x}')
        try:
            k('f:>a')
        except Exception:
            pass
        return [float(x) for x in k['a']] != [1.0, 2.0, 3.0]
    except Exception:
        return True


def c09_rebind_callable():
    try:
        k = _K()
        k['f'] = lambda x: x + 1
        k['f'] = lambda x: x + 2
        return _canon(k('f(1)')) != ("i", 3)
    except Exception:
        return True


def c09_wrapper_ragged():
    try:
        k = _K()
        k('f::{#x}')
        return _canon(k['f']([1, 2, [3]])) != ("i", 3)
    except Exception:
        return True


def c09_monadic_arity():
    try:
        k = _K()
        k('f::{-x}'); k('g::{x,,y}')
        return _canon(k['f'](3)) != ("i", -3) or _canon(k['g'](1, 2)) != _i(1, 2)
    except Exception:
        return True


# ------------------------------------------------------------------------------------------------- C11 / C12 / C13
def c11_rs_dict():
    try:
        r = _K()('.rs(":{[1 2]}")')
        return not isinstance(r, dict) or r != {1: 2}
    except Exception:
        return True


def c11_bracket_string():
    return _differs('["[" "x"]', [("s", "["), ("s", "x")]) or _differs('[0c[ 1]', [("c", "["), ("i", 1)])


def c11_char_class():
    try:
        from klongpy.writer import kg_write
        k = _K()
        return kg_write(k('"abc"@0'), k._backend, display=False) != '0ca'
    except Exception:
        return True


def c12_comment_hang():
    def on_alarm(*a):
        raise TimeoutError()
    signal.signal(signal.SIGALRM, on_alarm)
    signal.alarm(10)
    try:
        try:
            _K()('.comment("")')
        except TimeoutError:
            return True
        except Exception:
            pass
        return False
    finally:
        signal.alarm(0)


def c13_undefined_identity():
    from klongpy.core import KLONG_UNDEFINED
    return (pickle.loads(pickle.dumps(KLONG_UNDEFINED)) is not KLONG_UNDEFINED
            or copy.deepcopy([KLONG_UNDEFINED])[0] is not KLONG_UNDEFINED)


# ------------------------------------------------------------------------------------------------- C17 / C20
def c17_fsync_before_data():
    """at the moment os.fsync is called the kernel must already hold the bytes of the value"""
    import klongpy.db.file_cache as FC
    import klongpy.db.sys_fn_kvs as KVS
    d = tempfile.mkdtemp(prefix="c17p_")
    seen = []
    real_fsync = os.fsync

    class _OS:
        def __getattr__(self, n):
            return getattr(os, n)

        def fsync(self, fd):
            seen.append(os.fstat(fd).st_size)
            return real_fsync(fd)
    saved = FC.os
    FC.os = _OS()
    try:
        KVS.KeyValueStorage(d).set("a", "some value that is longer than nothing")
        size = os.path.getsize(os.path.join(d, "a"))
        return not seen or seen[-1] != size
    except Exception:
        return True
    finally:
        FC.os = saved
        shutil.rmtree(d, ignore_errors=True)


def c20_webc():
    """.webc(h) on the handle .web returns must shut the runner down and answer 1"""
    import asyncio, threading
    try:
        import klongpy.web.sys_fn_web as WEB
        loop = asyncio.new_event_loop()
        th = threading.Thread(target=loop.run_forever, daemon=True); th.start()
        log = []

        class Runner:
            async def cleanup(self):
                log.append("cleanup")

        class Task:
            def cancel(self):
                log.append("cancel")
        h = WEB.WebServerHandle(None, 0, Runner(), Task())
        try:
            r = WEB.eval_sys_fn_shutdown_web_server({'.system': {'ioloop': loop}}, h)
        finally:
            loop.call_soon_threadsafe(loop.stop)
        return r != 1 or sorted(log) != ["cancel", "cleanup"]
    except Exception:
        return True


def c20_none_argument():
    try:
        k = _K()
        log = []
        k['rec'] = lambda x: log.append(x) or 1
        k('h::{x;rec(y);1}')
        k['h'](1, None)
        return len(log) != 1
    except Exception:
        return True


# ------------------------------------------------------------------------------------------------- session 4 (reported by seeding agents)
def _S(x):
    return ("s", x)


def _C(x):
    return ("c", x)


def c01_range_string_order():
    return _differs('?"hello"', _S("helo")) or _differs('?"cab"', _S("cab"))


def c01_amend_kinds():
    return (_differs('[1 2 3]:=0.5,1', [("f", 1.0), ("f", 0.5), ("f", 3.0)]) or _differs('[[1 2] [3 4]]:=9,1', [_i(1, 2), ("i", 9)])
            or _differs('[1 2 3]:="a",1', [("i", 1), _S("a"), ("i", 3)]))


def c01_find_nested():
    return _differs('[[1 2] [3 1]]?1', []) or _differs('[[1 2] [3 1]]?[3 1]', _i(1))


def c01_shape_ragged():
    return _differs('^[1 [2]]', _i(2)) or _differs('^[[1] [2 3]]', _i(2)) or _differs('^["ab" "c"]', _i(2))


def c01_group_rows():
    return _differs('=[[1 2] [1 2]]', [_i(0, 1)]) or _differs('=[[1 2] [3 4] [1 2]]', [_i(0, 2), _i(1)])


def c01_grade_lists():
    return (_differs('<[[1 5] [2 0]]', _i(0, 1)) or _differs('<[[1 [2] 3] [1 [4] 0]]', _i(0, 1))
            or _differs('>[[2 2] [2 1] [1 9]]', _i(0, 1, 2)))


def c02_each_left_atom():
    return _differs('1+:\\2', ("i", 3)) or _differs('1-:/2', ("i", 1))


def c02_over_shortcuts():
    return _differs('%/[1 0]', ("o", "KGUndefined")) or _differs('&/[[1 2] [3]]', _i(1, 2))


def c02_scan_neutral_string():
    return _differs('0{x+@y}\\"abc"', _i(0, 1, 2, 3))


def c02_iterate_numpy_count():
    # in a child process with a hard limit: the defect is a loop that never ends (and that swallows an alarm raised inside the verb)
    import subprocess
    code = ("from klongpy import KlongInterpreter as K; import sys; "
            "sys.exit(0 if K()('(+/[1 1]){x+1}:*0') == 2 else 1)")
    try:
        return subprocess.run([sys.executable, "-W", "ignore", "-c", code], timeout=30, capture_output=True).returncode != 0
    except subprocess.TimeoutExpired:
        return True


def c02_each2_ragged():
    return _differs("[1 2]{x,!y}'[1 2]", [_i(1, 0), _i(2, 0, 1)])



def c11_r_negative():
    d = tempfile.mkdtemp(prefix="vtp_")
    try:
        k = _K(); f = os.path.join(d, "t.txt")
        k('.tc(T::.oc("%s"))' % f); k('.w(-5)'); k('.w([1 -2])'); k('.cc(T)')
        k('.fc(F::.ic("%s"))' % f)
        a = k('.r()'); b = k('.r()'); k('.cc(F)')
        return _canon(a) != ("i", -5) or _canon(b) != _i(1, -2)
    except Exception:
        return True
    finally:
        shutil.rmtree(d, ignore_errors=True)


def c16_directory_key():
    from klongpy.core import KLONG_UNDEFINED
    d = tempfile.mkdtemp(prefix="vtp_")
    try:
        k = _K(); k('.py("klongpy.db")'); k('kvs::.kvs("%s")' % d); k('kvs,"a/b",,1')
        return k('kvs?"a"') is not KLONG_UNDEFINED or _canon(k('kvs?"a/b"')) != ("i", 1)
    except Exception:
        return True
    finally:
        shutil.rmtree(d, ignore_errors=True)


def c14_cleanup_with_pending_calls():
    # the listener is stopped without an error (cleanup() while calls are outstanding): every pending call must be failed
    import asyncio
    import klongpy.sys_fn_ipc as IPC
    loop = asyncio.new_event_loop()
    try:
        class _P:
            def is_open(self): return True
            def __str__(self): return "p"
        nc = IPC.NetworkClient(loop, None, None, _P())
        fut = loop.create_future()
        nc.pending_responses[1] = fut
        try:
            nc._cleanup_pending_responses(None)
        except Exception:
            return True
        return not (fut.done() and fut.exception() is not None and not nc.pending_responses)
    finally:
        loop.close()



# ------------------------------------------------------------------------------------------------- open findings (session 4)
def _raises(fn):
    try:
        fn()
        return False
    except Exception:
        return True


def c01_match_real_lists_exact():
    k = _K()
    return _canon(k('0.3~0.1+0.2')) == ("i", 1) and _canon(k('[0.3]~,0.1+0.2')) == ("i", 0)


def c01_floor_big_integer():
    return _canon(_K()('_9007199254740993')) != ("i", 9007199254740993)


def c03_inner_lambda_arity():
    k = _K()
    try:
        return _canon(k('{{x+y}(x;1)}(5)')) != ("i", 6)
    except Exception:
        return True


def c03_projection_list_argument():
    k = _K()
    try:
        return _canon(k('f::{x,y,z};g::f([1 2];;);g(2;3)')) != _i(1, 2, 2, 3)
    except Exception:
        return True


def c03_body_is_projection():
    k = _K()
    try:
        return _canon(k('gg::{x-y};ff::{gg(x;)};pp::ff(1);pp(3)')) != ("i", -2)
    except Exception:
        return True


def c05_int64_overflow():
    import klongpy.interpreter as I
    real = I.compile_expr
    out = []
    for comp in (True, False):
        I.compile_expr = real if comp else (lambda ast, klong: None)
        try:
            try:
                out.append(int(_K()('a::10000000000;a*a')))
            except Exception:
                out.append("err")
        finally:
            I.compile_expr = real
    return out[0] != out[1]


def c09_wrapper_of_projection():
    k = _K()
    k('g::{x-y};f::g(10;)')
    return _canon(k('f(3)')) == ("i", 7) and _raises(lambda: k['f'](3))


def c09_arity_call_argument():
    k = _K()
    k['p'] = lambda x: x * 10
    k('h::{p(x+1)}')
    return _canon(k('h(1)')) == ("i", 20) and _raises(lambda: k['h'](1))


def c11_nested_dictionary_literal():
    from klongpy.core import KGCall
    k = _K()
    try:
        v = k('e:::{[1 :{[2 3]}]};e?1')
        return not isinstance(v, dict)
    except Exception:
        return True


def c15_timerc_after_raising_callback():
    import asyncio
    k = _K()
    loop = asyncio.new_event_loop()
    try:
        k['.system'] = {'klongloop': loop, 'ioloop': loop}
        n = {"c": 0}

        def cb():
            n["c"] += 1
            if n["c"] >= 2:
                raise RuntimeError("boom")
            return 1
        k['cb'] = cb
        k('t::{cb()}')
        loop.set_exception_handler(lambda l, c: None)
        th = k('th::.timer("t";0;t)')
        loop.run_until_complete(asyncio.sleep(0.2))
        r1 = k('.timerc(th)')
        return n["c"] == 2 and r1 == 1
    except Exception:
        return False
    finally:
        loop.close()


def c16_aliased_key_paths():
    d = tempfile.mkdtemp(prefix="vtp_")
    try:
        k = _K(); k('.py("klongpy.db")'); k('kvs::.kvs("%s")' % d)
        k('kvs,"a/b",,1'); k('kvs?"a/b"'); k('kvs,"a//b",,2')
        live = _canon(k('kvs?"a/b"'))
        k('kvs2::.kvs("%s")' % d)
        fresh = _canon(k('kvs2?"a/b"'))
        return live != fresh
    except Exception:
        return False
    finally:
        shutil.rmtree(d, ignore_errors=True)


def c20_ws_encode_numpy_scalar():
    import numpy as np
    import klongpy.ws.sys_fn_ws as WS
    from klongpy.core import KLONG_UNDEFINED
    bad = 0
    for v in (np.int64(6), KLONG_UNDEFINED):
        try:
            m = WS.encode_message(v)
            if m is None:
                bad += 1
        except Exception:
            bad += 1
    return bad > 0


def c07_unknown_point_leaks_name():
    k = _K()
    k('f::{x*x}')
    try:
        k('f:>q')
    except Exception:
        pass
    from klongpy.core import KGSym
    return KGSym('q') in k._context._context[0]


def c01_reshape_string_vector_shape():
    return _canon(_K()('5:^"abc"')) == _S("abcab") and _canon(_K()('[5]:^"abc"')) != _S("abcab")


PROBES = {
    "C01/split-near-equal": c01_split, "C01/rotate-matrix-flattens": c01_rotate, "C01/reverse-atom-raises": c01_reverse_atom,
    "C01/format-list-recursion": c01_format_list, "C01/first-of-string-is-string": c01_first_string, "C01/max-nested": c01_max_nested,
    "C01/min-nested": c01_min_nested, "C01/remainder-nested": c01_rem_nested, "C01/take-matrix-overshoot": c01_take_matrix,
    "C01/group-order": c01_group_order, "C01/match-integers-with-tolerance": c01_match_int,
    "C01/list-cells-in-rectangular-literal": c01_list_cells,
    "C01/range-string-sorted": c01_range_string_order, "C01/amend-casts-and-flattens": c01_amend_kinds,
    "C01/find-atom-in-list-of-lists": c01_find_nested, "C01/shape-ragged-raises": c01_shape_ragged,
    "C01/group-matrix-elementwise": c01_group_rows, "C01/grade-lists-by-maximum": c01_grade_lists,
    "C02/each-left-right-atom": c02_each_left_atom, "C02/over-shortcuts-divide-min-max": c02_over_shortcuts,
    "C02/scan-over-neutral-string": c02_scan_neutral_string, "C02/iterate-numpy-count-hangs": c02_iterate_numpy_count,
    "C02/each2-ragged-results": c02_each2_ragged,
    "C02/over-single-char-string": c02_over_char, "C02/string-operands-as-one-letter-strings": c02_string_chars,
    "C03/projection-of-projection-hole-order": c03_projection_order, "C03/dot-f-loses-locals": c03_dotf_locals,
    "C04/parse-cache-skips-module-switch": c04_module_cache,
    "C05/compiled-code-run-on-other-kinds": c05_compiled_kinds, "C05/compiled-reduce-scan-shortcuts": c05_reduce_scan,
    "C05/compiled-power-kind": c05_power_kind, "C05/compiled-divide-numpy-scalar-zero": c05_divide_numpy_zero,
    "C05/compiled-divide-numpy-scalar-dividend": c05_divide_numpy_dividend,
    "C07/numeric-grad-perturbs-caller-array": c07_grad_in_place,
    "C09/rebind-callable-unwrapped": c09_rebind_callable, "C09/wrapper-ragged-list-argument": c09_wrapper_ragged,
    "C09/arity-under-monadic-operator": c09_monadic_arity,
    "C11/rs-dictionary-unevaluated": c11_rs_dict, "C11/bracket-string-in-list": c11_bracket_string,
    "C11/two-character-classes": c11_char_class,
    "C11/r-negative-number": c11_r_negative, "C16/directory-prefix-key-raises": c16_directory_key,
    "C14/cleanup-with-pending-calls": c14_cleanup_with_pending_calls,
    "C01/reshape-string-one-element-shape": c01_reshape_string_vector_shape,
    "C01/match-real-lists-exact": c01_match_real_lists_exact, "C01/floor-integer-beyond-2^53": c01_floor_big_integer,
    "C03/inner-lambda-parameters-counted-for-outer": c03_inner_lambda_arity, "C03/projection-with-list-argument": c03_projection_list_argument,
    "C03/function-body-is-a-projection": c03_body_is_projection, "C05/int64-overflow-compiled-bignum": c05_int64_overflow,
    "C09/wrapper-of-projection-arity": c09_wrapper_of_projection, "C09/arity-ignores-call-arguments": c09_arity_call_argument,
    "C11/nested-dictionary-literal-unevaluated": c11_nested_dictionary_literal, "C15/timerc-after-raising-callback": c15_timerc_after_raising_callback,
    "C16/aliased-key-paths": c16_aliased_key_paths, "C20/ws-cannot-encode-numpy-scalar-or-undefined": c20_ws_encode_numpy_scalar,
    "C07/unknown-point-leaves-a-global": c07_unknown_point_leaks_name,
    "C12/empty-comment-marker-hangs": c12_comment_hang,
    "C13/undefined-identity-through-pickle": c13_undefined_identity,
    "C17/fsync-before-flush": c17_fsync_before_data,
    "C20/webc-ignores-plain-handle": c20_webc, "C20/ws-null-message-not-delivered": c20_none_argument,
}


def main():
    pid = sys.argv[1]
    out = {}
    for fid, fn in PROBES.items():
        if not fid.startswith(pid + "/"):
            continue
        try:
            out[fid] = bool(fn())
        except BaseException as e:       # a crashing probe is a harness problem, reported as such by the driver
            out[fid] = "error: %r" % (e,)
    print(json.dumps(out))


if __name__ == "__main__":
    main()
