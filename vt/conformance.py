"""Conformance gate for the NumPy model (DESIGN 2.3): every expression of the repository's own suites is evaluated by the
real interpreter once over real NumPy and once over vt.symnp; value, nesting and integer/real/char/string kind must agree.

  python -m vt.conformance dump     (env VT_MODE=sym|real)  -> JSON lines on stdout
  python -m vt.conformance gate     -> runs both dumps, compares, exit 0 / 3
"""
import ast, json, os, subprocess, sys, math

ROOT = os.path.dirname(os.path.dirname(os.path.abspath(__file__)))
_REPO = os.environ.get("VT_REPO", "/repo")
SUITES = [_REPO + "/tests/test_suite.py", _REPO + "/tests/test_extra_suite.py", _REPO + "/tests/test_eval_monad_list.py",
          _REPO + "/tests/test_reshape_strings.py", _REPO + "/tests/test_prog.py"]


def cases():
    """(suite, method, [('eval'|'cmp', text, shared)])"""
    out = []
    for path in SUITES:
        if not os.path.exists(path):
            continue
        tree = ast.parse(open(path).read())
        for cls in [n for n in tree.body if isinstance(n, ast.ClassDef)]:
            for fn in [n for n in cls.body if isinstance(n, ast.FunctionDef) and n.name.startswith("test_")]:
                steps = []
                for node in ast.walk(fn):
                    if isinstance(node, ast.Call):
                        f = node.func
                        if isinstance(f, ast.Attribute) and f.attr in ("assert_eval_cmp", "assert_eval_test") and node.args \
                                and isinstance(node.args[0], ast.Constant) and isinstance(node.args[0].value, str):
                            shared = any(k.arg == "klong" for k in node.keywords)
                            steps.append((node.lineno, "cmp", node.args[0].value, shared))
                        elif isinstance(f, ast.Name) and f.id == "klong" and node.args and isinstance(node.args[0], ast.Constant) \
                                and isinstance(node.args[0].value, str):
                            steps.append((node.lineno, "eval", node.args[0].value, True))
                steps.sort()
                out.append((os.path.basename(path), fn.name, [(k, t, s) for (_, k, t, s) in steps]))
    return out


def _round(c):
    if isinstance(c, tuple) and c and c[0] == "f":
        v = c[1]
        if v != v:
            return ("f", "nan")
        if v in (float("inf"), float("-inf")):
            return ("f", str(v))
        return ("f", float("%.10g" % v))
    if isinstance(c, (list, tuple)):
        return [_round(x) for x in c]
    return c


class _TO(Exception):
    pass


def dump(outpath):
    import random, signal, io, contextlib, time
    from vt import npworld as W

    def _alarm(*a):
        raise _TO()
    signal.signal(signal.SIGVTALRM, _alarm)        # CPU time of this process, not wall time: a loaded machine must not fail the gate
    res = []
    for suite, meth, steps in cases():
        shared = W.interpreter()
        for kind, text, sh in steps:
            if ".rn" in text or "random" in text:
                continue
            k = shared if sh else W.interpreter()
            signal.setitimer(signal.ITIMER_VIRTUAL, 20)
            try:
                with contextlib.redirect_stdout(io.StringIO()):
                    r = k(text)
                c = _round(W.canon(r))
            except _TO:
                c = ["timeout"]
            except Exception as e:
                n = type(e).__name__
                if n == "OutsideModel":
                    c = ["outside-model", str(e)]
                else:
                    c = ["exc", n]
            finally:
                signal.setitimer(signal.ITIMER_VIRTUAL, 0)
            res.append([suite, meth, text, c])
    json.dump(res, open(outpath, "w"), default=str)


def gate(verbose=False):
    outs = {}
    os.makedirs(os.path.join(ROOT, ".gen"), exist_ok=True)

    def start(mode):
        e = dict(os.environ); e["VT_MODE"] = mode
        outp = os.path.join(ROOT, ".gen", "conf_%s_%d.json" % (mode, os.getpid()))
        return (mode, outp, subprocess.Popen([sys.executable, "-W", "ignore", "-m", "vt.conformance", "dump", outp], env=e, cwd=ROOT,
                                             stdout=subprocess.DEVNULL, stderr=subprocess.PIPE, text=True))
    procs = [start("sym"), start("real")]
    for mode, outp, p in procs:
        _, err = p.communicate()
        if p.returncode != 0:
            # one retry: a dump killed by the environment (memory pressure, a stray signal) says nothing about the model
            mode, outp, p = start(mode)
            _, err2 = p.communicate()
            if p.returncode != 0:
                return {"ok": False, "error": "dump %s failed twice: %s ||| %s" % (mode, err[-1500:], err2[-1500:])}
        outs[mode] = json.load(open(outp)); os.remove(outp)
    if len(outs["sym"]) != len(outs["real"]):
        return {"ok": False, "error": "different number of cases"}
    bad, outside, agree, timeouts = [], [], 0, 0
    for s, r in zip(outs["sym"], outs["real"]):
        if s[3] == r[3]:
            agree += 1
        elif s[3] == ["timeout"] or r[3] == ["timeout"]:
            timeouts += 1                       # neither agreement nor disagreement
        elif isinstance(s[3], list) and s[3] and s[3][0] == "outside-model":
            outside.append(s[2])
        else:
            bad.append({"suite": s[0], "test": s[1], "expr": s[2], "model": s[3], "numpy": r[3]})
    return {"ok": not bad, "cases": len(outs["sym"]), "agree": agree, "timeouts": timeouts, "outside_model": len(outside), "disagree": bad[:40],
            "n_disagree": len(bad), "outside_examples": outside[:10]}


if __name__ == "__main__":
    if sys.argv[1] == "dump":
        dump(sys.argv[2])
    else:
        r = gate()
        print(json.dumps(r, indent=1, default=str)[:6000])
        sys.exit(0 if r["ok"] else 3)
