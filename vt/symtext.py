"""SymText - program text whose positions are symbolic indices into a token alphabet (DESIGN 2.4).

A position is realised by a solver fork over the alphabet the first time the lexer reads it and from then on IS a real
one-character str, so every downstream string operation is Python's own.  Positions may also be given as concrete
characters (used by the conformance gate, which replays the repository's .kg corpus through SymText and through str).
"""
ALPHA = ['"', ':', ';', '(', ')', '{', '}', '[', ']', '0', '1', 'c', 'e', 'x', 'a', '-', '.', '+', '\n', ' ',
         '\\', '~', '*', "'", '/', '@', '|', '#', ',', '_']
SUB = ['{', '}', '[', ']', '(', ')', ':', ';', '"', '0', 'x', "'", '\n', ' ']


def _real(k, alpha):
    if isinstance(k, str):
        return k
    for j in range(len(alpha)):
        if k == j:
            return alpha[j]
    raise AssertionError("index outside the alphabet")


class SymText:
    def __init__(self, ks, alpha=ALPHA):
        self.ks = list(ks); self.alpha = alpha

    def _at(self, j):
        v = self.ks[j]
        if not isinstance(v, str):
            v = _real(v, self.alpha)
            self.ks[j] = v            # realised once: later reads see the same character
        return v

    def __len__(self):
        return len(self.ks)

    def __getitem__(self, i):
        if isinstance(i, slice):
            start, stop, step = i.indices(len(self.ks))
            idx = list(range(start, stop, step))
            # short slices (the lexer's two-character lookahead) and slices over text that has been scanned already are
            # real str objects, exactly what str slicing gives; only unread stretches stay lazy
            if len(idx) <= 2 or all(isinstance(self.ks[j], str) for j in idx):
                return "".join(self._at(j) for j in idx)
            return _View(self, idx)
        if i < 0:
            i += len(self.ks)
        if i < 0 or i >= len(self.ks):
            raise IndexError("string index out of range")
        return self._at(i)

    def concrete(self):
        return "".join(self._at(j) for j in range(len(self.ks)))

    def __str__(self):
        return self.concrete()

    def __repr__(self):
        return repr(self.concrete())

    def __format__(self, spec):
        return format(self.concrete(), spec)

    def __hash__(self):
        return hash(self.concrete())

    def __eq__(self, o):
        if isinstance(o, (SymText, _View)):
            o = o.concrete()
        return self.concrete() == o

    def __ne__(self, o):
        return not self.__eq__(o)

    def __iter__(self):
        return (self._at(j) for j in range(len(self.ks)))

    def __contains__(self, c):
        return c in self.concrete()

    def __int__(self):
        return int(self.concrete())

    def __float__(self):
        return float(self.concrete())

    def __add__(self, o):
        return self.concrete() + str(o)

    def __radd__(self, o):
        return str(o) + self.concrete()

    def startswith(self, p, *a):
        return self.concrete().startswith(str(p), *a)

    def index(self, sub, *a):
        return self.concrete().index(str(sub), *a)

    def find(self, sub, *a):
        return self.concrete().find(str(sub), *a)

    def split(self, *a):
        return self.concrete().split(*a)


class _View(SymText):
    """lazy slice: positions of the parent, realised only when looked at"""
    def __init__(self, parent, idx):
        self.parent = parent; self.idx = idx; self.alpha = parent.alpha

    @property
    def ks(self):
        return self.idx

    def _at(self, j):
        return self.parent._at(self.idx[j])

    def __len__(self):
        return len(self.idx)

    def __getitem__(self, i):
        if isinstance(i, slice):
            idx = self.idx[i]
            if len(idx) <= 2 or all(isinstance(self.parent.ks[j], str) for j in idx):
                return "".join(self.parent._at(j) for j in idx)
            return _View(self.parent, idx)
        if i < 0:
            i += len(self.idx)
        if i < 0 or i >= len(self.idx):
            raise IndexError("string index out of range")
        return self.parent._at(self.idx[i])

    def concrete(self):
        return "".join(self.parent._at(j) for j in self.idx)
