"""SymText - program text whose positions are symbolic indices into a token alphabet (DESIGN 2.4).

A position is realised by a solver fork over the alphabet the first time the lexer reads it and from then on IS a real
one-character str, so every downstream string operation is Python's own.  Positions may also be given as concrete
characters (used by the conformance gate, which replays the repository's .kg corpus through SymText and through str).
"""
ALPHA = ['"', ':', ';', '(', ')', '{', '}', '[', ']', '0', '1', 'c', 'e', 'x', 'a', '-', '.', '+', '\n', ' ',
         '\\', '~', '*', "'", '/', '@', '|', '#', ',', '_',
         '\u00e9']     # a letter outside ASCII: str.isalpha() is true for it, [A-Za-z] is not
SUB = ['{', '}', '[', ']', '(', ')', ':', ';', '"', '0', 'x', "'", '\n', ' ']


def _real(k, alpha):
    if isinstance(k, str):
        return k
    for j in range(len(alpha)):
        if k == j:
            return alpha[j]
    raise AssertionError("index outside the alphabet")


class SymText:
    def __init__(self, ks, alpha=ALPHA):
        self.ks = list(ks); self.alpha = alpha

    def _at(self, j):
        v = self.ks[j]
        if not isinstance(v, str):
            v = _real(v, self.alpha)
            self.ks[j] = v            # realised once: later reads see the same character
        return v

    def __len__(self):
        return len(self.ks)

    def __getitem__(self, i):
        if isinstance(i, slice):
            start, stop, step = i.indices(len(self.ks))
            idx = list(range(start, stop, step))
            # short slices (the lexer's two-character lookahead) and slices over text that has been scanned already are
            # real str objects, exactly what str slicing gives; only unread stretches stay lazy
            if len(idx) <= 2 or all(isinstance(self.ks[j], str) for j in idx):
                return "".join(self._at(j) for j in idx)
            return _View(self, idx)
        if i < 0:
            i += len(self.ks)
        if i < 0 or i >= len(self.ks):
            raise IndexError("string index out of range")
        return self._at(i)

    def concrete(self):
        return "".join(self._at(j) for j in range(len(self.ks)))

    def __str__(self):
        return self.concrete()

    def __repr__(self):
        return repr(self.concrete())

    def __format__(self, spec):
        return format(self.concrete(), spec)

    def __hash__(self):
        return hash(self.concrete())

    def __eq__(self, o):
        if isinstance(o, (SymText, _View)):
            o = o.concrete()
        return self.concrete() == o

    def __ne__(self, o):
        return not self.__eq__(o)

    def __iter__(self):
        return (self._at(j) for j in range(len(self.ks)))

    def __contains__(self, c):
        return c in self.concrete()

    def __int__(self):
        return int(self.concrete())

    def __float__(self):
        return float(self.concrete())

    def __add__(self, o):
        return self.concrete() + str(o)

    def __radd__(self, o):
        return str(o) + self.concrete()

    def startswith(self, p, *a):
        return self.concrete().startswith(str(p), *a)

    def index(self, sub, *a):
        return self.concrete().index(str(sub), *a)

    def find(self, sub, *a):
        return self.concrete().find(str(sub), *a)

    def split(self, *a):
        return self.concrete().split(*a)


class _View(SymText):
    """lazy slice: positions of the parent, realised only when looked at"""
    def __init__(self, parent, idx):
        self.parent = parent; self.idx = idx; self.alpha = parent.alpha

    @property
    def ks(self):
        return self.idx

    def _at(self, j):
        return self.parent._at(self.idx[j])

    def __len__(self):
        return len(self.idx)

    def __getitem__(self, i):
        if isinstance(i, slice):
            idx = self.idx[i]
            if len(idx) <= 2 or all(isinstance(self.parent.ks[j], str) for j in idx):
                return "".join(self.parent._at(j) for j in idx)
            return _View(self.parent, idx)
        if i < 0:
            i += len(self.idx)
        if i < 0 or i >= len(self.idx):
            raise IndexError("string index out of range")
        return self.parent._at(self.idx[i])

    def concrete(self):
        return "".join(self.parent._at(j) for j in self.idx)


# ------------------------------------------------------------------------------------------------ regular expressions
# The re module accepts only real str subjects.  A lexer that uses a compiled pattern (a plausible refactoring of the hand-written
# scanning loops) could therefore not run on a SymText at all.  The proxy below realises the text (every position the pattern could
# look at = all of it) before handing it to the real pattern object - more paths, same semantics.  Installed before klongpy is
# imported, so that module-level `X = re.compile(...)` inside klongpy gets the proxy; other callers get the plain pattern.
import re as _re, sys as _sys


def _plain(x):
    return x.concrete() if isinstance(x, SymText) else x


class _PatProxy:
    def __init__(self, pat):
        self._p = pat

    def __getattr__(self, n):
        return getattr(self._p, n)

    def match(self, s, *a, **k):
        return self._p.match(_plain(s), *a, **k)

    def search(self, s, *a, **k):
        return self._p.search(_plain(s), *a, **k)

    def fullmatch(self, s, *a, **k):
        return self._p.fullmatch(_plain(s), *a, **k)

    def findall(self, s, *a, **k):
        return self._p.findall(_plain(s), *a, **k)

    def finditer(self, s, *a, **k):
        return self._p.finditer(_plain(s), *a, **k)

    def split(self, s, *a, **k):
        return self._p.split(_plain(s), *a, **k)

    def sub(self, repl, s, *a, **k):
        return self._p.sub(repl, _plain(s), *a, **k)

    def subn(self, repl, s, *a, **k):
        return self._p.subn(repl, _plain(s), *a, **k)


_installed = []


def install_re_proxy():
    if _installed:
        return
    _installed.append(True)
    orig_compile = _re.compile

    def compile(pattern, flags=0):
        p = orig_compile(pattern, flags)
        if _sys._getframe(1).f_globals.get("__name__", "").startswith("klongpy"):
            return _PatProxy(p)
        return p
    _re.compile = compile
    for name in ("match", "search", "fullmatch", "findall", "finditer", "split"):
        def mk(orig):
            def f(pattern, string, *a, **k):
                return orig(pattern, _plain(string), *a, **k)
            return f
        setattr(_re, name, mk(getattr(_re, name)))
    for name in ("sub", "subn"):
        def mk2(orig):
            def f(pattern, repl, string, *a, **k):
                return orig(pattern, repl, _plain(string), *a, **k)
            return f
        setattr(_re, name, mk2(getattr(_re, name)))
