#!/bin/bash
# Build the overlay venv offline: /venv's interpreter + /venv's site-packages + /repo + crosshair-tool/z3-solver
# from the local wheelhouse.  Idempotent.  Nothing is fetched.
set -e
cd "$(dirname "$0")"
export PIP_NO_INDEX=1
if [ ! -x .venv/bin/python ] || ! .venv/bin/python -c "import crosshair, z3" 2>/dev/null; then
  rm -rf .venv
  /venv/bin/python -m venv .venv
  SP=$(.venv/bin/python -c "import sysconfig; print(sysconfig.get_paths()['purelib'])")
  printf "import site; site.addsitedir('/venv/lib/python3.12/site-packages')\n/repo\n" > "$SP/_overlay.pth"
  .venv/bin/pip install -q --no-index --find-links /opt/veriftools/wheels crosshair-tool z3-solver >/dev/null 2>&1
fi
.venv/bin/python -W ignore -c "import crosshair, z3, klongpy, numpy; print('overlay ok: crosshair', crosshair.__version__, 'z3', z3.get_version_string())"
