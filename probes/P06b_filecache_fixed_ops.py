import chpatch
from P06_filecache_symbolic_ops import *

def run(maxmem, ops, sizes):
    fs = FS(); install(fs)
    c = FC.FileCache(max_memory=maxmem, root_path="/")
    model = {}
    names = ["a", "b"]
    ok = True
    for o, s in zip(ops, sizes):
        name = names[o % 2]
        kind = o // 2
        if kind == 0:
            blob = Blob(s, (o, s))
            try:
                applied = c.update_file(name, blob)
            except MemoryError:
                ok = ok and s > maxmem
                continue
            ok = ok and applied
            model[name] = blob
        elif kind == 1:
            try:
                r = c.get_file(name)
            except FileNotFoundError:
                ok = ok and name not in model
                continue
            except MemoryError:
                continue
            ok = ok and (r is model.get(name))
        else:
            c.unload_file(name)
        ok = ok and inv(c)
    return ok

def seq_0_1_2_3(maxmem: int, s0: int, s1: int, s2: int, s3: int) -> bool:
    """
    pre: 1 <= maxmem <= 64
    pre: 0 <= s0 <= 64 and 0 <= s1 <= 64 and 0 <= s2 <= 64 and 0 <= s3 <= 64
    post: _
    """
    return run(maxmem, [0, 1, 2, 3], [s0, s1, s2, s3])
