def f(a: int) -> bool:
    """
    pre: -5 <= a <= 5
    post: _
    """
    t = type(a)
    ok1 = t is int
    ok2 = issubclass(type(a), (int, float))
    ok3 = isinstance(a, int)
    d = {}
    d['k'] = a
    ok4 = d.get('k') is a
    s = [a, a+1][-1]
    return ok1 and ok2 and ok3 and ok4 and s == a + 1

def g(a: int) -> bool:
    """
    pre: -5 <= a <= 5
    post: _
    """
    return not callable(a)

def h(a: int, b:int) -> bool:
    """
    pre: 0 <= a <= 50
    pre: 1 <= b <= 50
    post: _
    """
    l = [1,2,3] * a
    x = list(range(a))
    return len(l) == 3*a and len(x) == a and (a // b) * b + a % b == a
