import chpatch, sys
from symtext2 import SymText, ALPHA
from klongpy import KlongInterpreter

class Budget(Exception): pass

def prog3(k0: int, k1: int, k2: int, n: int) -> bool:
    """
    pre: 0 <= k0 < 30 and 0 <= k1 < 30 and 0 <= k2 < 30
    pre: 0 <= n <= 3
    post: _
    """
    t = SymText([k0, k1, k2][:n])
    k = KlongInterpreter()
    import klongpy.interpreter as I, klongpy.parser as P
    calls = [0]
    orig = P.kg_read
    def counted(*a, **kw):
        calls[0] += 1
        if calls[0] > 200: raise Budget()
        return orig(*a, **kw)
    I.kg_read = counted; P.kg_read = counted
    try:
        k.prog(t)
    except Budget:
        return False
    except RecursionError:
        return False
    except Exception as e:
        if type(e).__module__.startswith('crosshair'): raise
        return True
    finally:
        I.kg_read = orig; P.kg_read = orig
    return True
