import chpatch
import klongpy.sys_fn_ipc as IPC

class Codec:
    @staticmethod
    def dumps(m): return m
    @staticmethod
    def loads(b): return b
class Struct:
    @staticmethod
    def pack(fmt, n):
        assert fmt == "!I"
        return bytes([(n >> 24) & 255, (n >> 16) & 255, (n >> 8) & 255, n & 255])
    @staticmethod
    def unpack(fmt, b):
        assert fmt == "!I" and len(b) == 4
        return ((b[0] << 24) | (b[1] << 16) | (b[2] << 8) | b[3],)
class Uid:
    def __init__(self, bytes=None): self.bytes = bytes
    def __eq__(self, o): return self.bytes == o.bytes
class UuidNS:
    UUID = Uid

class Reader:
    def __init__(self, data, cut): self.data = data; self.limit = cut; self.pos = 0
    async def readexactly(self, n):
        if self.pos + n > self.limit:
            raise IPC.IncompleteReadError(self.data[self.pos:], n)
        r = self.data[self.pos:self.pos+n]; self.pos += n
        return r

def drive(coro):
    try: coro.send(None)
    except StopIteration as s: return ('ret', s.value)
    except IPC.IncompleteReadError as e: return ('eof', None)
    raise AssertionError

def two_frames(p1: bytes, p2: bytes, cut: int) -> bool:
    """
    pre: len(p1) <= 3 and len(p2) <= 3
    pre: 0 <= cut <= 46
    post: _
    """
    id1 = bytes(range(16)); id2 = bytes(range(100, 116))
    IPC.pickle = Codec; IPC.struct = Struct; IPC.uuid = UuidNS
    stream = IPC.encode_message(Uid(id1), p1) + IPC.encode_message(Uid(id2), p2)
    total = len(stream)
    rd = Reader(stream, cut)
    k1, v1 = drive(IPC.stream_recv_msg(rd))
    f1 = 20 + len(p1)
    if cut < f1:
        return k1 == 'eof'
    ok = k1 == 'ret' and v1[0].bytes == id1 and v1[1] == p1 and rd.pos == f1
    k2, v2 = drive(IPC.stream_recv_msg(rd))
    if cut < total:
        return ok and k2 == 'eof'
    return ok and k2 == 'ret' and v2[0].bytes == id2 and v2[1] == p2 and rd.pos == total
