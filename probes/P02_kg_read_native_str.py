from klongpy.parser import kg_read

def progress_kg_read0(t: str) -> bool:
    """
    pre: len(t) <= 3
    post: _
    """
    try:
        j, a = kg_read(t, 0)
    except Exception:
        return True
    return (j > 0) if a is not None else (j >= len(t))
