from typing import Tuple
from klongpy.parser import read_string, kg_read, read_num, skip, read_shifted_comment, read_list
from klongpy.writer import kg_write_string

def rt_string(s: str) -> bool:
    """
    pre: len(s) <= 4
    post: _
    """
    t = kg_write_string(s)
    i, r = kg_read(t, 0)
    return r == s and i == len(t)

def progress_kg_read(t: str, i: int) -> bool:
    """
    pre: len(t) <= 2
    pre: 0 <= i <= len(t)
    post: _
    """
    try:
        j, a = kg_read(t, i)
    except (ValueError,) :
        return True
    except Exception:
        return True
    return (j > i) if a is not None else (j >= i and j>=len(t))

def progress_skip(t: str, i: int) -> bool:
    """
    pre: len(t) <= 5
    pre: 0 <= i <= len(t)
    post: _
    """
    j = skip(t, i)
    return i <= j <= len(t)
