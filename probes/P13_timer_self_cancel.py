import chpatch
from klongpy.sys_fn_timer import _call_periodic, eval_sys_fn_cancel_timer

class H:
    def __init__(self, when, cb, arg): self.when = when; self.cb = cb; self.arg = arg; self.cancelled = False
    def cancel(self): self.cancelled = True
class Loop:
    def __init__(self, t0): self.now = t0; self.q = []
    def time(self): return self.now
    def call_at(self, when, cb, arg): h = H(when, cb, arg); self.q.append(h); return h
    def call_later(self, d, cb, arg): h = H(self.now + d, cb, arg); self.q.append(h); return h
    def call_soon(self, cb, arg): h = H(self.now, cb, arg); self.q.append(h); return h
    def run_next(self, late):
        live = [h for h in self.q if not h.cancelled]
        if not live: return False
        h = min(live, key=lambda x: x.when); self.q.remove(h)
        self.now = max(self.now, h.when) + late
        h.cb(h.arg); return True

def script(interval: int, a0: int, a1: int, late0: int, late1: int) -> bool:
    """
    pre: 0 <= interval <= 5
    pre: 0 <= a0 <= 2 and 0 <= a1 <= 2
    pre: 0 <= late0 <= 12 and 0 <= late1 <= 12
    post: _
    """
    loop = Loop(0); ticks = []; stopped = [None]
    acts = [a0, a1, 1]
    def cb():
        i = len(ticks); ticks.append(loop.now)
        act = acts[i] if i < len(acts) else 1
        if act == 2:      # cancel self from inside the callback, then return true
            r = eval_sys_fn_cancel_timer(handle)
            if r == 1 and stopped[0] is None: stopped[0] = len(ticks)
            return 1
        if act == 0:
            if stopped[0] is None: stopped[0] = len(ticks)
            return 0
        return 1
    handle = _call_periodic(loop, "t", interval, cb)
    for late in (late0, late1, 0, 0):
        if not loop.run_next(late): break
    # once stopped (callback returned false, or .timerc reported 1) no later tick may happen
    return stopped[0] is None or len(ticks) == stopped[0]
