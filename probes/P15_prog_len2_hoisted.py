import chpatch, sys
from symtext2 import SymText, ALPHA
from klongpy import KlongInterpreter
import klongpy.interpreter as I, klongpy.parser as P

class Budget(Exception): pass
K = KlongInterpreter()
CALLS = [0]
_orig = P.kg_read
def counted(*a, **kw):
    CALLS[0] += 1
    if CALLS[0] > 200: raise Budget()
    return _orig(*a, **kw)
I.kg_read = counted; P.kg_read = counted

def prog2(k0: int, k1: int, n: int) -> bool:
    """
    pre: 0 <= k0 < 30 and 0 <= k1 < 30
    pre: 0 <= n <= 2
    post: _
    """
    t = SymText([k0, k1][:n])
    CALLS[0] = 0
    K._module = None
    try:
        K.prog(t)
    except Budget:
        return False
    except RecursionError:
        return False
    except Exception as e:
        if type(e).__module__.startswith('crosshair'): raise
        return True
    return True
