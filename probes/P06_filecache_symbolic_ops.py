import chpatch
from typing import List
import klongpy.db.file_cache as FC

class Blob:
    def __init__(self, n, tag): self.n = n; self.tag = tag
    def __len__(self): return self.n

class LazyFuture:
    def __init__(self, fn, args): self.fn = fn; self.args = args; self._done = False; self._r = None
    def result(self):
        if not self._done:
            self._r = self.fn(*self.args); self._done = True
        return self._r
    def done(self): return self._done

class Exec:
    def submit(self, fn, *args): return LazyFuture(fn, args)

class FS:
    def __init__(self): self.files = {}
class WFile:
    def __init__(self, fs, p): self.fs = fs; self.p = p; fs.files[p] = Blob(0, None)
    def write(self, b): self.fs.files[self.p] = b
    def fileno(self): return 3
    def __enter__(self): return self
    def __exit__(self, *a): return False
class RFile:
    def __init__(self, fs, p): self.fs = fs; self.p = p
    def read(self): return self.fs.files[self.p]
    def __enter__(self): return self
    def __exit__(self, *a): return False

class OSPath:
    def __init__(self, fs): self.fs = fs
    def join(self, a, b): return b
    def dirname(self, p): return ""
    def exists(self, p): return p in self.fs.files
    def getsize(self, p): return len(self.fs.files[p])
class OS:
    def __init__(self, fs): self.path = OSPath(fs)
    def makedirs(self, p, exist_ok=False): pass
    def fsync(self, fd): pass
    def getcwd(self): return "/"

class Clock:
    def __init__(self): self.t = 0
    def time_ns(self):
        self.t += 1; return self.t

def install(fs):
    FC.os = OS(fs); FC.time = Clock(); FC.ThreadPoolExecutor = Exec
    FC.open = lambda p, mode: WFile(fs, p) if 'w' in mode else RFile(fs, p)
    FC.tinfo = lambda m: None

def inv(c):
    tot = sum(info[1] for info in c.file_futures.values() if not info[0])
    return c.current_memory_usage == tot and 0 <= c.current_memory_usage <= c.max_memory

def seq(maxmem: int, ops: List[int], sizes: List[int]) -> bool:
    """
    pre: 1 <= maxmem <= 64
    pre: len(ops) == 3 and len(sizes) == 3
    pre: all(0 <= o <= 5 for o in ops)
    pre: all(0 <= s <= 64 for s in sizes)
    post: _
    """
    fs = FS(); install(fs)
    c = FC.FileCache(max_memory=maxmem, root_path="/")
    model = {}
    names = ["a", "b"]
    ok = True
    for o, s in zip(ops, sizes):
        name = names[o % 2]
        kind = o // 2
        if kind == 0:
            blob = Blob(s, (o, s))
            try:
                applied = c.update_file(name, blob)
            except MemoryError:
                ok = ok and s > maxmem
                continue
            ok = ok and applied
            model[name] = blob
        elif kind == 1:
            try:
                r = c.get_file(name)
            except FileNotFoundError:
                ok = ok and name not in model
                continue
            except MemoryError:
                continue
            ok = ok and (r is model.get(name))
        else:
            c.unload_file(name)
        ok = ok and inv(c)
    return ok
