import chpatch
from typing import List
import klongpy.sys_fn_ipc as IPC

class Fut:
    def __init__(self): self.state = 'pending'; self.val = None
    def set_result(self, v):
        assert self.state == 'pending'; self.state = 'result'; self.val = v
    def set_exception(self, e):
        assert self.state == 'pending'; self.state = 'exc'; self.val = e
    def done(self): return self.state != 'pending'

def drive(coro):
    try:
        coro.send(None)
    except StopIteration as s:
        return ('ret', s.value)
    except BaseException as e:
        if type(e).__module__.startswith('crosshair'):
            raise
        return ('exc', e)
    raise AssertionError("coroutine suspended")

class Prov:
    def is_open(self): return True
    def __str__(self): return "p"

def listen_step(ids: List[int], m: int, fault: int) -> bool:
    """
    pre: len(ids) <= 3
    pre: len(set(ids)) == len(ids)
    pre: 0 <= fault <= 3
    post: _
    """
    nc = IPC.NetworkClient(None, None, None, Prov())
    futs = {}
    for i in ids:
        f = Fut(); futs[i] = f; nc.pending_responses[i] = f
    payload = object()
    async def recv(reader):
        if fault == 1: raise IPC.IncompleteReadError(b'', 4)
        if fault == 2: raise ConnectionResetError()
        if fault == 3: raise OSError()
        return m, payload
    sent = []
    async def send(writer, msg_id, msg): sent.append((msg_id, msg))
    ran = []
    async def run_cmd(klongloop, klong, command, nc_): ran.append(command); return "resp"
    IPC.stream_recv_msg = recv; IPC.stream_send_msg = send; IPC.run_command_on_klongloop = run_cmd
    kind, val = drive(nc._listen())
    if fault:
        return kind == 'exc' and isinstance(val, IPC.KlongIPCConnectionFailureException) and all(not f.done() for f in futs.values()) and len(nc.pending_responses) == len(ids)
    if m in ids:
        ok = futs[m].state == 'result' and futs[m].val is payload and m not in nc.pending_responses
        ok = ok and all((not f.done()) and (i in nc.pending_responses) for i, f in futs.items() if i != m)
        return ok and kind == 'ret' and not ran and not sent
    return kind == 'ret' and ran == [payload] and sent == [(m, "resp")] and all(not f.done() for f in futs.values())
