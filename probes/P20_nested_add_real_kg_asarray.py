import chpatch
import symnd_proto as symnd
import klongpy.backends.numpy_backend as NB
import klongpy.backends.base as BB
import klongpy.dyads as D

class SymBackend(NB.NumpyBackendProvider):
    def __init__(self): self._np = symnd
    def is_array(self, x): return isinstance(x, symnd.ndarray)
BB.np = symnd; NB.np = symnd
BK = SymBackend()

def canon(x):
    if isinstance(x, symnd.ndarray): return [canon(y) for y in x]
    if isinstance(x, list): return [canon(y) for y in x]
    return x

def add_nested(a: int, b: int, c: int, d: int, e: int) -> bool:
    """
    post: _
    """
    # [a [b c]] + [d [e a]]  (ragged, depth 2) and atom extension  a + [b [c d]]
    x = BK.kg_asarray([a, [b, c]])
    y = BK.kg_asarray([d, [e, a]])
    r1 = canon(D.eval_dyad_add(x, y, BK))
    r2 = canon(D.eval_dyad_add(a, BK.kg_asarray([b, [c, d]]), BK))
    m = BK.kg_asarray([[a, b], [c, d]])
    r3 = canon(D.eval_dyad_add(m, e, BK))
    return r1 == [a + d, [b + e, c + a]] and r2 == [a + b, [a + c, a + d]] and r3 == [[a+e, b+e], [c+e, d+e]] and m.shape == (2, 2) and x.dtype == 'O'
