import chpatch
from symtext_lazy_rejected import SymText, ALPHA
from klongpy.parser import kg_read

N = len(ALPHA)

def kg_read_progress3(k0: int, k1: int, k2: int, n: int) -> bool:
    """
    pre: 0 <= k0 < 30 and 0 <= k1 < 30 and 0 <= k2 < 30
    pre: 0 <= n <= 3
    post: _
    """
    ks = [k0, k1, k2][:n]
    t = SymText(ks)
    try:
        j, a = kg_read(t, 0)
    except Exception as e:
        if type(e).__module__.startswith('crosshair'): raise
        return True
    return (j > 0) if a is not None else (j >= len(t))
