"""P18: a loss that raises at its 4th evaluation leaves the differentiated parameter perturbed."""
from klongpy import KlongInterpreter
k = KlongInterpreter()
cnt = [0]
def boom(x):
    cnt[0] += 1
    if cnt[0] == 4:
        raise RuntimeError("boom")
    return x
k['boom'] = boom
k('f::{+/boom(x)*x}')
for form, setup in (('a∇f', 'a::[1.0 2.0 3.0]'), ('f:>a', 'a::[1.0 2.0 3.1]')):
    cnt[0] = 0
    k(setup)
    try:
        k(form)
    except Exception as e:
        print(form, "raised", type(e).__name__)
    print("  parameter afterwards:", k['a'])
cnt[0] = 0
k('w::[1.0 2.0]'); k('c::3.0'); k('loss::{(+/boom(w)*w)+c*c}')
try:
    k('loss:>[w c]')
except Exception as e:
    print("loss:>[w c] raised", type(e).__name__)
print("  w afterwards:", k['w'])
