"""Prototype: text as a concrete-length sequence of symbolic alphabet indices.
Duck-types the str operations the klongpy lexer/parser use."""
ALPHA = ['"', ':', ';', '(', ')', '{', '}', '[', ']', '0', '1', 'c', 'e', 'x', 'a', '-', '.', '+', '\n', ' ',
         '\\', '~', '*', "'", '/', '@', '|', '#', ',', '_']
IDX = {c: i for i, c in enumerate(ALPHA)}
DIG = [IDX['0'], IDX['1']]
ALP = [IDX['c'], IDX['e'], IDX['x'], IDX['a']]
SPC = [IDX[' '], IDX['\n']]

def _isin(k, ks):
    r = False
    for j in ks:
        r = r or (k == j)
    return r

class SymChar:
    __slots__ = ('k',)
    def __init__(self, k): self.k = k
    def __eq__(self, o):
        if isinstance(o, SymChar): return self.k == o.k
        if isinstance(o, str):
            if len(o) != 1 or o not in IDX: return False
            return self.k == IDX[o]
        return NotImplemented
    def __ne__(self, o):
        r = self.__eq__(o)
        return r if r is NotImplemented else not r
    def concrete(self):
        for j in range(len(ALPHA)):
            if self.k == j: return ALPHA[j]
        raise AssertionError
    def __hash__(self): return hash(self.concrete())
    def __str__(self): return self.concrete()
    def isnumeric(self): return _isin(self.k, DIG)
    isdigit = isnumeric
    def isalpha(self): return _isin(self.k, ALP)
    def isspace(self): return _isin(self.k, SPC)
    def __len__(self): return 1
    def startswith(self, p): return self == p

class SymText:
    def __init__(self, ks): self.ks = list(ks)
    def __len__(self): return len(self.ks)
    def __getitem__(self, i):
        if isinstance(i, slice): return SymText(self.ks[i])
        return SymChar(self.ks[i])
    def concrete(self): return "".join(SymChar(k).concrete() for k in self.ks)
    def __str__(self): return self.concrete()
    def __hash__(self): return hash(self.concrete())
    def __eq__(self, o):
        if isinstance(o, SymText): o = o.concrete() if False else o
        if isinstance(o, str):
            if len(o) != len(self.ks): return False
            return all(SymChar(k) == c for k, c in zip(self.ks, o))
        if isinstance(o, SymText):
            return len(o.ks) == len(self.ks) and all(a == b for a, b in zip(self.ks, o.ks))
        return NotImplemented
    def startswith(self, p):
        return len(p) <= len(self.ks) and all(SymChar(k) == c for k, c in zip(self.ks, p))
    def index(self, sub):
        return self.concrete().index(str(sub))
    def split(self, s): return self.concrete().split(s)
    def __contains__(self, c): return any(SymChar(k) == c for k in self.ks)
    def __iter__(self): return (SymChar(k) for k in self.ks)
    def __int__(self): return int(self.concrete())
    def __float__(self): return float(self.concrete())
    def isalpha(self): return len(self.ks) > 0 and all(SymChar(k).isalpha() for k in self.ks)
    def isdigit(self): return len(self.ks) > 0 and all(SymChar(k).isnumeric() for k in self.ks)
