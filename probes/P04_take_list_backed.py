from typing import List
import klongpy.dyads as D
from klongpy.core import KGChar

class Arr(list):
    """list-backed 1-D array stand-in"""
    @property
    def ndim(self): return 1
    @property
    def shape(self): return (len(self),)
    @property
    def size(self): return len(self)
    def __getitem__(self, k):
        r = list.__getitem__(self, k)
        return Arr(r) if isinstance(k, slice) else r

class NP:
    ndarray = Arr
    @staticmethod
    def isarray(x): return isinstance(x, Arr)
    @staticmethod
    def asarray(x, dtype=None): return x if isinstance(x, Arr) else Arr(x)
    @staticmethod
    def abs(x): return abs(x)
    @staticmethod
    def tile(b, n):
        return Arr(list(b) * n)
    @staticmethod
    def concatenate(parts, axis=0):
        r = Arr()
        for p in parts: r.extend(p)
        return r

class BK:
    np = NP
    def str_to_chr_arr(self, s): return Arr([KGChar(c) for c in s])
    def array_size(self, a): return len(a)

def ref_take(a, b):
    n = len(b)
    if n == 0: return b
    if a >= 0:
        return [b[i % n] for i in range(a)]
    k = -a
    # last k elements of the infinite cyclic extension to the left
    return [b[(n - k + i) % n] for i in range(k)]

def take_ints(a: int, b: List[int]) -> bool:
    """
    pre: -7 <= a <= 7
    pre: len(b) <= 3
    post: _
    """
    r = D.eval_dyad_take(a, Arr(b), BK())
    return list(r) == ref_take(a, b)

def take_str(a: int, b: str) -> bool:
    """
    pre: -7 <= a <= 7
    pre: len(b) <= 3
    post: _
    """
    r = D.eval_dyad_take(a, b, BK())
    return r == "".join(ref_take(a, b))
