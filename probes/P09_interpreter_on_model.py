import chpatch
from typing import List
import symnp_proto as symnp
import klongpy.backends.numpy_backend as NB
import klongpy.backends.base as BB
import klongpy.types as T
from klongpy.backends import register_backend
from klongpy import KlongInterpreter
import klongpy.interpreter as I

class SymBackend(NB.NumpyBackendProvider):
    def __init__(self, device=None):
        self._np = symnp
    @property
    def name(self): return 'sym'
    def is_array(self, x): return isinstance(x, symnp.ndarray)
    def kg_asarray(self, a):
        return a if isinstance(a, symnp.ndarray) else symnp.ndarray(a)
register_backend('sym', SymBackend)
NB.np = symnp   # generated code sees the model

def reduce_scan(a: int, b: int, c: int) -> bool:
    """
    post: _
    """
    k = KlongInterpreter(backend='sym')
    k['v'] = symnp.ndarray([a, b, c])
    r1 = k('+/v')            # compiled path
    saved = I.compile_expr
    I.compile_expr = lambda ast, klong: None
    try:
        k2 = KlongInterpreter(backend='sym')
        k2['v'] = symnp.ndarray([a, b, c])
        r2 = k2('+/v')       # interpreted path
        s2 = k2('+\\v')
    finally:
        I.compile_expr = saved
    s1 = k('+\\v')
    return r1 == r2 == a + b + c and s1.tolist() == s2.tolist() == [a, a+b, a+b+c]

def dbg(a: int, b: int, c: int) -> bool:
    """
    post: _
    """
    try:
        return reduce_scan(a, b, c)
    except Exception as e:
        import traceback, sys
        traceback.print_exc(file=sys.stderr)
        return True
