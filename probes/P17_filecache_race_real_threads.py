"""P17: force 'update while a load of the same file is in flight' with real threads.
Run: /venv/bin/python P17_filecache_race_real_threads.py  (uses a scratch dir under $TMPDIR, removed at exit)."""
import threading, os, tempfile, builtins, time, shutil
import klongpy.db.file_cache as FC

root = tempfile.mkdtemp()
with open(os.path.join(root, "f"), "wb") as fh:
    fh.write(b"INITIAL")

c = FC.FileCache(max_memory=1000, root_path=root)
ev_load_may_read = threading.Event()
ev_write_opened = threading.Event()
ev_write_may_write = threading.Event()
real_open = builtins.open


class WProxy:
    def __init__(self, f): self.f = f
    def write(self, b):
        ev_write_opened.set()
        ev_write_may_write.wait()
        return self.f.write(b)
    def fileno(self): return self.f.fileno()
    def __enter__(self): self.f.__enter__(); return self
    def __exit__(self, *a): return self.f.__exit__(*a)


def my_open(path, mode):
    if 'r' in mode:
        ev_load_may_read.wait()
        return real_open(path, mode)
    return WProxy(real_open(path, mode))


FC.open = my_open
res = {}
tg = threading.Thread(target=lambda: res.__setitem__('get', c.get_file("f"))); tg.start()
time.sleep(0.2)                       # load task is parked before open('rb')
tu = threading.Thread(target=lambda: res.__setitem__('upd', c.update_file("f", b"NEWDATA!!"))); tu.start()
ev_write_opened.wait()                # write task has truncated the file, nothing written yet
ev_load_may_read.set()                # the load now reads the truncated file
tg.join()
print("get returned:", res['get'])
print("after load:", {k: (v[0], v[1]) for k, v in c.file_futures.items()}, "usage", c.current_memory_usage)
ev_write_may_write.set(); tu.join()
print("update applied:", res['upd'])
print("final:", {k: (v[0], v[1]) for k, v in c.file_futures.items()}, "usage", c.current_memory_usage,
      "sum", sum(v[1] for v in c.file_futures.values() if not v[0]))
shutil.rmtree(root)
