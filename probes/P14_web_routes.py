import chpatch
import klongpy.web.sys_fn_web as W
from klongpy import KlongInterpreter

class Resp:
    def __init__(self, text=None, status=200): self.text = text; self.status = status
class Router:
    def __init__(self): self.gets = {}; self.posts = {}
    def add_get(self, r, h): self.gets[r] = h
    def add_post(self, r, h): self.posts[r] = h
class App:
    def __init__(self): self.router = Router(); APPS.append(self)
class Runner:
    def __init__(self, app): self.app = app
class WebNS:
    Application = App; Response = Resp; AppRunner = Runner; Request = object
    class TCPSite:
        def __init__(self, *a): pass
APPS = []
class FakeLoop:
    def call_soon_threadsafe(self, fn, *a): fn(*a)
class FakeAsyncio:
    @staticmethod
    def create_task(coro):
        coro.close(); return "task"

class Req:
    def __init__(self, method, query): self.method = method; self.rel_url = type("U", (), {"query": query})()

def drive(coro):
    try: coro.send(None)
    except StopIteration as s: return s.value
    raise AssertionError

def routes(n: int, r: int, bad: int) -> bool:
    """
    pre: 1 <= n <= 3
    pre: 0 <= r < n
    pre: 0 <= bad <= 3
    post: _
    """
    W.web = WebNS; W.asyncio = FakeAsyncio
    del APPS[:]
    k = KlongInterpreter()
    k['.system'] = {'ioloop': FakeLoop()}
    log = []
    get = {}
    for i in range(n):
        def h(x, i=i):
            log.append((i, x))
            if i == bad: raise RuntimeError("handler failed")
            return f"r{i}"
        k[f'h{i}'] = h
        get[f"/p{i}"] = k._context[__import__('klongpy').core.KGSym(f'h{i}')]
    W.eval_sys_fn_create_web_server(k, 8080, get, {})
    app = APPS[0]
    q = {"a": "1"}
    names = ["/p0", "/p1", "/p2"]
    rr = [i for i in range(n) if i == r][0]
    resp = drive(app.router.gets[names[rr]](Req("GET", q)))
    r = rr
    if r == bad:
        return log == [(r, q)] and resp.status == 400
    return log == [(r, q)] and resp.status == 200 and resp.text == ["r0","r1","r2"][r]
