"""n-D prototype of the NumPy model: nested-list storage, numpy-like shape discovery."""
import operator, functools, itertools

class DT:
    def __init__(self, kind): self.kind = kind
    def __eq__(self, o):
        if isinstance(o, str): return o in ('O', 'object') and self.kind == 'O'
        if o is object: return self.kind == 'O'
        return isinstance(o, DT) and o.kind == self.kind
    def __ne__(self, o): return not self.__eq__(o)
    def __hash__(self): return hash(self.kind)

def _is_seq(x): return isinstance(x, (list, tuple, ndarray))
def _scalar_kind(x):
    if isinstance(x, bool) or isinstance(x, int): return 'i'
    if isinstance(x, float): return 'f'
    return 'O'

def _discover(a, want_object):
    """Return (shape, ragged) following numpy's rule: descend while all children are sequences of equal length."""
    if not _is_seq(a): return (), False
    n = len(a)
    if n == 0: return (0,), False
    subs = [_discover(x, want_object) for x in a]
    shapes = [s for s, _ in subs]
    if all(s == shapes[0] for s in shapes) and not any(r for _, r in subs):
        # str elements are scalars
        return (n,) + shapes[0], False
    return (n,), True

class ndarray:
    def __init__(self, nested, shape, kind):
        self._d = nested            # nested python lists of depth len(shape)
        self.shape = tuple(shape)
        self.dtype = DT(kind)
    @property
    def ndim(self): return len(self.shape)
    @property
    def size(self):
        return functools.reduce(operator.mul, self.shape, 1)
    def __len__(self):
        if not self.shape: raise TypeError("len() of unsized object")
        return self.shape[0]
    def _wrap(self, x):
        if len(self.shape) > 1: return ndarray(x, self.shape[1:], self.dtype.kind)
        return x
    def __iter__(self): return (self._wrap(x) for x in self._d)
    def __getitem__(self, k):
        if isinstance(k, slice):
            sub = self._d[k]
            return ndarray(sub, (len(sub),) + self.shape[1:], self.dtype.kind)
        return self._wrap(self._d[k])
    def tolist(self): 
        def f(x, d): return [f(y, d-1) for y in x] if d > 0 else x
        return f(self._d, len(self.shape))
    def item(self): return self._d

def _flat_leaves(a, depth):
    if depth == 0: return [a]
    r = []
    for x in a: r.extend(_flat_leaves(x, depth - 1))
    return r

def _tonested(a, depth):
    if depth == 0: return a
    if isinstance(a, ndarray): a = list(a)
    return [_tonested(x, depth - 1) for x in a]

def asarray(a, dtype=None):
    if isinstance(a, ndarray) and dtype is None: return a
    want_object = dtype is object or dtype == 'O'
    shape, ragged = _discover(a, want_object)
    if ragged and not want_object:
        raise ValueError("setting an array element with a sequence. inhomogeneous shape")
    if ragged:
        shape = (len(a),)
    nested = _tonested(a, len(shape))
    leaves = _flat_leaves(nested, len(shape))
    kind = 'O' if want_object else 'i'
    if not want_object:
        for x in leaves:
            k = _scalar_kind(x)
            if k == 'O':
                if isinstance(x, str): raise ValueError("string dtype")  # kg_asarray treats kind U as ValueError
                kind = 'O'
            elif k == 'f' and kind == 'i': kind = 'f'
    if not shape: return ndarray(nested, (), kind)
    return ndarray(nested, shape, kind)
array = asarray
def isarray(x): return isinstance(x, ndarray)

def _mk(items, like):
    """result of an element-wise op keeps the operand's shape; object arrays stay object arrays"""
    if like.dtype.kind == 'O':
        return ndarray(list(items), (len(items),), 'O')
    return asarray(list(items))
def _ew(f, a, b):
    if isinstance(a, ndarray) and isinstance(b, ndarray):
        assert a.shape == b.shape, "broadcast outside model"
        like = a if a.dtype.kind == 'O' else b
        return _mk([_ew(f, x, y) for x, y in zip(a, b)], like)
    if isinstance(a, ndarray): return _mk([_ew(f, x, b) for x in a], a)
    if isinstance(b, ndarray): return _mk([_ew(f, a, y) for y in b], b)
    return f(a, b)
class ufunc:
    def __init__(self, f): self.f = f
    def __call__(self, a, b): return _ew(self.f, a, b)
add = ufunc(operator.add); subtract = ufunc(operator.sub); multiply = ufunc(operator.mul)
def seterr(**k): pass
integer = int; floating = float
