"""Text container: concrete length, each position a symbolic index into ALPHA; a position is
realised (solver fork over the alphabet) the first time it is read, then behaves as a real str."""
ALPHA = ['"', ':', ';', '(', ')', '{', '}', '[', ']', '0', '1', 'c', 'e', 'x', 'a', '-', '.', '+', '\n', ' ',
         '\\', '~', '*', "'", '/', '@', '|', '#', ',', '_']

def _real(k):
    for j in range(len(ALPHA)):
        if k == j:
            return ALPHA[j]
    raise AssertionError

class SymText:
    def __init__(self, ks): self.ks = list(ks)
    def __len__(self): return len(self.ks)
    def __getitem__(self, i):
        if isinstance(i, slice): return SymText(self.ks[i])
        return _real(self.ks[i])
    def concrete(self): return "".join(_real(k) for k in self.ks)
    def __str__(self): return self.concrete()
    def __format__(self, spec): return self.concrete()
    def __hash__(self): return hash(self.concrete())
    def __eq__(self, o): return self.concrete() == (o.concrete() if isinstance(o, SymText) else o)
    def startswith(self, p): return self.concrete().startswith(str(p))
    def index(self, sub): return self.concrete().index(str(sub))
    def __iter__(self): return (_real(k) for k in self.ks)
    def __int__(self): return int(self.concrete())
    def __float__(self): return float(self.concrete())
