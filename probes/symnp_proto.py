"""Prototype list-backed numpy model (1-D only) for probing."""
import functools, itertools, operator

class DT:
    def __init__(self, kind): self.kind = kind
    def __eq__(self, o):
        if isinstance(o, str): return (o == 'O' and self.kind == 'O') or (o == 'object' and self.kind=='O')
        if o is object: return self.kind == 'O'
        return isinstance(o, DT) and o.kind == self.kind
    def __ne__(self, o): return not self.__eq__(o)
    def __hash__(self): return hash(self.kind)

def _kind_of(items):
    k = 'i'
    for x in items:
        if isinstance(x, bool): continue
        if isinstance(x, int): continue
        if isinstance(x, float): k = 'f' if k != 'O' else k; continue
        return 'O'
    return k

class ndarray:
    def __init__(self, items, kind=None):
        self._d = list(items)
        self.dtype = DT(kind or _kind_of(self._d))
    ndim = 1
    @property
    def shape(self): return (len(self._d),)
    @property
    def size(self): return len(self._d)
    def __len__(self): return len(self._d)
    def __iter__(self): return iter(self._d)
    def __getitem__(self, k):
        if isinstance(k, slice): return ndarray(self._d[k], self.dtype.kind)
        return self._d[k]
    def tolist(self): return list(self._d)
    def _bin(self, o, f):
        if isinstance(o, ndarray):
            assert len(o) == len(self)
            return ndarray([f(a, b) for a, b in zip(self._d, o._d)])
        return ndarray([f(a, o) for a in self._d])
    def __add__(self, o): return self._bin(o, operator.add)
    def __radd__(self, o): return ndarray([o + a for a in self._d])
    def __sub__(self, o): return self._bin(o, operator.sub)
    def __rsub__(self, o): return ndarray([o - a for a in self._d])
    def __mul__(self, o): return self._bin(o, operator.mul)
    def __rmul__(self, o): return ndarray([o * a for a in self._d])
    def __neg__(self): return ndarray([-a for a in self._d])

def isarray(x): return isinstance(x, ndarray)
def asarray(a, dtype=None):
    if isinstance(a, ndarray): return a
    return ndarray(a, 'O' if dtype is object else None)
array = lambda a, dtype=None: ndarray(list(a))

class ufunc:
    def __init__(self, f): self.f = f
    def __call__(self, a, b):
        if isinstance(a, ndarray): return a._bin(b, self.f)
        if isinstance(b, ndarray): return ndarray([self.f(a, x) for x in b])
        return self.f(a, b)
    def reduce(self, a, axis=0): return functools.reduce(self.__call__, list(a))
    def accumulate(self, a, axis=0): return ndarray(list(itertools.accumulate(list(a), self.__call__)))
add = ufunc(operator.add); subtract = ufunc(operator.sub); multiply = ufunc(operator.mul)
maximum = ufunc(lambda a, b: a if a >= b else b); minimum = ufunc(lambda a, b: a if a <= b else b)
def cumsum(a): return add.accumulate(a)
def cumprod(a): return multiply.accumulate(a)
def seterr(**k): pass
integer = int; floating = float
def issubdtype(a, b): return False
