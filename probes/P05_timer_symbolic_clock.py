from typing import List
from klongpy.sys_fn_timer import _call_periodic, KGTimerHandler

class H:
    def __init__(self, when, cb, arg):
        self.when = when; self.cb = cb; self.arg = arg; self.cancelled = False
    def cancel(self): self.cancelled = True

class Loop:
    def __init__(self, t0): self.now = t0; self.q = []
    def time(self): return self.now
    def call_at(self, when, cb, arg):
        h = H(when, cb, arg); self.q.append(h); return h
    def call_later(self, d, cb, arg):
        h = H(self.now + d, cb, arg); self.q.append(h); self.last_delay = d; return h
    def call_soon(self, cb, arg):
        h = H(self.now, cb, arg); self.q.append(h); return h

def one_tick(start: int, interval: int, late: int, dur: int) -> bool:
    """
    pre: 0 <= start <= 1000
    pre: 1 <= interval <= 5000
    pre: 0 <= late <= 20000
    pre: 0 <= dur <= 20000
    post: _
    """
    # times are integer milliseconds; interval in ms
    loop = Loop(start)
    calls = []
    def cb():
        calls.append(loop.now)
        loop.now += dur   # callback takes dur
        return 1
    h = _call_periodic(loop, "t", interval, cb)
    first = loop.q.pop()
    ok = first.when == start + interval
    # loop dispatches at or after the deadline
    loop.now = first.when + late
    first.cb(first.arg)
    nxt = loop.q.pop()
    # next deadline must be the first boundary strictly after now
    k = (nxt.when - start)
    return ok and k % interval == 0 and nxt.when > loop.now and nxt.when - loop.now <= interval and h.delegate is nxt
