#!/bin/bash
# tools/seedloop.sh : keep confirming + checking delivered seeds (SEED_BASE/<ID>/_out/{a,b}) until N results exist or .gen/seedstop appears
cd /verif
BASE=${SEED_BASE:-/tmp/seed2}; RES=${SEED_RES:-.gen/seedres2}; N=${SEED_N:-34}; mkdir -p $RES
while [ ! -f .gen/seedstop ]; do
  did=0
  for d in $(ls -d $BASE/C*/_out/[ab] 2>/dev/null); do
    [ -f "$d/patch.diff" ] && [ -f "$d/demo.py" ] && [ -f "$d/notes.md" ] || continue
    id=$(echo "$d" | sed "s|$BASE/\\(C[0-9]*\\)/_out/\\([ab]\\)|\\1|"); v=$(basename "$d")
    out=$RES/${id}_$v.txt
    [ -f "$out" ] && continue
    # notes.md must be at least a minute old (the agent may still be writing)
    [ $(( $(date +%s) - $(stat -c %Y "$d/notes.md") )) -lt 60 ] && continue
    echo "== $id $v" > "$out"
    SKIP_PYTEST=${SKIP_PYTEST:-0} tools/seedconfirm.sh "$d" >> "$out" 2>&1
    tools/seedrun.sh "$d/patch.diff" "$id" quick >> "$out" 2>&1
    did=1
    [ -f .gen/seedstop ] && break
  done
  [ $(ls $RES | wc -l) -ge $N ] && break
  [ $did = 0 ] && sleep 30
done
echo done
