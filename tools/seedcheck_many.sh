#!/bin/bash
# tools/seedcheck_many.sh <parallel> <ID_v> ...   run the quick check for the listed seeds (e.g. C09_a), <parallel> at a time
cd /verif
P=$1; shift
BASE=${SEED_BASE:-/tmp/seed2}; RES=${SEED_RES:-.gen/seedres2}
for s in "$@"; do echo "$s"; done | xargs -P $P -I{} bash -c 's={}; id=${s%_*}; v=${s#*_}; VT_JOBS=${VT_JOBS:-6} SEED_LINES=14 tools/seedrun.sh '$BASE'/$id/_out/$v/patch.diff $id quick >> '$RES'/$s.txt 2>&1'
echo many-done
