#!/usr/bin/env python3
"""Regenerate MANIFEST.json from the table below (keeps checks / not_applicable consistent)."""
import json, os
ROOT = os.path.dirname(os.path.dirname(os.path.abspath(__file__)))
TECH = ("bounded symbolic execution of the real Python code (CrossHair 0.0.110 + z3): per-obligation verdict over all values "
        "inside the stated bound, reachability twin per obligation, counterexamples replayed on the real implementation")
CHECKS = {
 "C02": ("Every adverb (each, each-2, each-left/right, each-pair, each-index, over, over-neutral, scan-over, scan-over-neutral, iterate, scan-iterating, converge, while, scan-converging, scan-while) is run through the real parser, chain_adverbs and eval_adverb_* code as program text over symbolic operands (two symbolic integer vectors of symbolic length, a symbolic atom/neutral element, the 2xN matrix and nested vectors built from them, strings of every length, dictionaries) for operator verbs (shortcut paths), Klong lambdas, a projection and imported Python callables; the result must equal the adverb's definition written out as explicit loops over a Python model of the verb. The user verb is linear and non-associative, so equality for all integers is equality of the application tree. Two-adverb chains are included.",
         "NumPy is replaced by vt.symnp (conformance-gated, witnesses replayed on real NumPy); the expression compiler is disabled in this check (C05 covers it); empty right operands of the neutral/left/right adverbs, on which the reference is silent, are excluded"),
 "C01": ("Every primitive verb reachable from the interpreter's own dispatch tables is executed symbolically (real eval_monad_*/eval_dyad_*, vec_fn/vec_fn2/rec_fn, kg_asarray, kg_equal, kg_argsort) over a list-backed NumPy model: symbolic counts and indices, symbolic vector length (<=3 quick, <=5 thorough), unbounded symbolic integer elements, strings of every length, nesting templates up to depth 3 (atom, vectors, nested, ragged, matrix) with symbolic leaves, matrices with symbolic leaves, and solver-enumerated small concrete domains for the real-valued kind rules; the result must equal, in structure, elements and integer/real/char/string kind, a loop-and-index reference written from the verb's docstring.",
         "NumPy is replaced by vt.symnp (validated on the repo's 1400+ suite expressions by the conformance gate and by replay of every witness on real NumPy); integers are mathematical; reals only as concrete probes; torch, int64 overflow, tie order of grade, operands on which the reference is silent are outside the claim"),
 "C13": ("Claimed in part: (a) n frames written by the real stream_send_msg and read by the real stream_recv_msg with symbolic payload bytes/lengths and a symbolic cut point come back one by one, intact, in order, and a cut stream raises and never yields an unsent message; (b) every server command class reaches exactly its branch and completes the result future exactly once with the right value/exception, popping the connection handle.",
         "pickle is an opaque injective codec and struct '!I' is big-endian arithmetic (stand-ins); readexactly's contract is trusted; value fidelity through pickle (e.g. :undefined identity) and a live server are outside the claim"),
 "C14": ("One-step lemmas from an arbitrary pending table (any subset of a 4-id domain): a received message completes exactly its own future; for every transport fault class and for a close request the listener task ends with every pending call completed exactly once and the table empty; a call on a closed connection registers nothing. Plus a scheduled simulation of 2-3 concurrent callers and the listener coroutine with a symbolic inbound script and symbolic scheduling decisions: every caller returns its own answer exactly once or raises, nobody is left blocked.",
         "futures, transport functions, uuid4 and run_coroutine_threadsafe are stand-ins; only properly nested interleavings of callers and listener are explored; real sockets/threads outside the claim"),
 "C15": ("Every script of <=3 (quick) / <=5 (thorough) ticks with symbolic start time, per-tick dispatch latency (late, or one clock-resolution unit early), callback duration and action (continue, return 0, cancel self, cancel other timer) and a symbolic external .timerc instant runs through the real _call_periodic/cancel/.timer/.timerc code on a virtual-time loop; tick placement, no double tick, stop-for-good, .timerc return value and per-tick re-resolution of a named callback are postconditions decided by z3 over all values in the bound.",
         "virtual-time integer-grid event loop stands in for asyncio; intervals are concrete per obligation; float rounding of the deadline arithmetic and raising callbacks are outside the claim"),
 "C16": ("Every sequence of <=3 (quick) / <=4 (thorough) cache operations (update, get, unload, reopen) with a symbolic opcode per step, symbolic content sizes and a symbolic memory limit runs through the real FileCache; every sequence of KeyValueStorage set/get/get-missing/reopen operations runs through the real store with real pickles. After every step: latest value read back, other keys unaffected, missing key is :undefined, accounting == sum of entries, 0 <= usage <= limit, heap == entries, disk == last update.",
         "in-memory model FS, lazy executor (one legal schedule), strictly increasing clock; TableStorage (pandas) outside the claim"),
 "C17": ("The operation trace the real set/_write_file code issues is recorded on a model file system; the crash point (any position of the trace) and what the disk lost (per unsynced file: nothing or any prefix; per unsynced entry: survived or not) are symbolic; a fresh store opened on the recovered image must return exactly the value of every set that had returned, and no key other than the one being written may fail.",
         "persistence model F (fsync of a file also persists its directory entry, ext4-like) gates violations; the strict POSIX model is a listed known finding (no directory fsync); a real kernel/power cut is outside the claim"),
}
NA = {
 "C06": "numeric accuracy of IEEE float64/float32 arithmetic inside NumPy and libtorch autograd: CrossHair caps real-modelled float paths at unknown and a QF_FP encoding of even a central difference of x*x does not finish in 60 s on z3 4.8/5.1/cvc5 (probe P3); autograd is C++",
 "C08": "the behaviour compared lives in libtorch kernels and torch dtype promotion (C++): no Python source to execute symbolically, and a hand model of torch would verify the model",
 "C19": "every step is a pandas/DuckDB call (C/C++); the klongpy code between them has no data-dependent branch for a solver to decide",
}
PENDING = "check not built yet in this revision (DESIGN.md section 9 build order)"

props = [json.loads(l)["id"] for l in open(os.path.join(ROOT, "properties.jsonl"))]
built = [p for p in props if p in CHECKS and os.path.exists(os.path.join(ROOT, "vt", "props", p + ".py"))]
m = {"version": 1, "setup_cmd": "./setup.sh",
     "hooks": {"guard": "KLONGPY_VERIF",
               "enable": "no source hooks are needed: every stand-in is installed from the harness process by attribute assignment on imported klongpy modules or through klongpy.backends.register_backend",
               "baseline_off_cmd": "cd /repo && /venv/bin/python -m pytest -ra -q -p no:cacheprovider --timeout=900 --continue-on-collection-errors",
               "source_commits": [], "add_only": True},
     "engines": [{"name": "crosshair+z3", "path": "vt/driver.py", "serves_properties": built,
                  "kind_free_text": "bounded symbolic execution of the real klongpy functions (CrossHair 0.0.110, z3 5.1 decides every branch), one obligation per process, counterexamples replayed on plain CPython with the real libraries"}],
     "checks": [], "notes": "see DESIGN.md; known_findings.json lists fixed/open findings; exit 3 + HARNESS-ERROR = the machinery (not klongpy) is at fault",
     "not_applicable": []}
for p in built:
    text, note = CHECKS[p]
    m["checks"].append({"property_id": p, "quick_cmd": "./check %s --tier quick" % p, "thorough_cmd": "./check %s --tier thorough" % p,
                        "evidence_file": "evidence/%s.json" % p, "replay_cmd_template": "./check %s --replay {path}" % p,
                        "engine": "crosshair+z3",
                        "level_claimed": {"category": "model_checking", "text": text, "design_ref": "DESIGN.md section 3, " + p},
                        "level_note": note, "technique": TECH})
for p in props:
    if p not in built:
        m["not_applicable"].append({"property_id": p, "reason": NA.get(p, PENDING)})
json.dump(m, open(os.path.join(ROOT, "MANIFEST.json"), "w"), indent=1)
print("checks:", built)
