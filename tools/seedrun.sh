#!/bin/bash
# tools/seedrun.sh <patch.diff> <ID> [tier] [extra check args]
# Triage of a seeded breaking change WITHOUT touching /repo: the patch is applied to a scratch worktree of /repo's HEAD and the
# check analyses that copy (VT_REPO).  The registered way (git -C /repo apply; ./check; git -C /repo checkout -- .) gives the
# same verdict; this script exists so that several seeds can be examined in parallel.  Prints "SEED <ID> rc=<rc>" + VIOLATION lines.
patch=$(readlink -f "$1"); id=$2; tier=${3:-quick}; shift; shift; shift
wt=$(mktemp -d /tmp/seedwt_XXXXXX)
rmdir "$wt"
git -C /repo worktree add --detach "$wt" HEAD >/dev/null 2>&1 || { echo "worktree failed"; exit 9; }
if ! git -C "$wt" apply "$patch" 2>/dev/null && ! git -C "$wt" apply --3way "$patch" 2>/dev/null; then echo "SEED $id patch does not apply"; git -C /repo worktree remove --force "$wt"; exit 9; fi
cd "$(dirname "$0")/.."
log=$(mktemp /tmp/seedlog_XXXXXX)
VT_REPO="$wt" VT_EVIDENCE_DIR="$wt/_ev" ./check "$id" --tier "$tier" "$@" > "$log" 2>&1
rc=$?
echo "SEED $id patch=$patch rc=$rc"
grep -E "^(C[0-9]+ tier|VIOLATION|HARNESS-ERROR|KNOWN-FINDING|  counterexample|  INCONCLUSIVE)" "$log" | cut -c1-400 | head -${SEED_LINES:-12}
git -C /repo worktree remove --force "$wt"
rm -f "$log"
exit $rc
