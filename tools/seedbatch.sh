#!/bin/bash
# tools/seedbatch.sh [ids...]  - the registered procedure: apply the seeded change to /repo, run the property's quick check,
# undo it straight afterwards.  Nothing else may use /repo while this runs.  Writes seeded/<id>/result.json.
cd /verif
ids="$@"; [ -z "$ids" ] && ids=$(ls seeded)
for id in $ids; do
  prop=${id:0:3}
  if [ -n "$(git -C /repo status --porcelain --untracked-files=no)" ]; then echo "/repo is not clean"; exit 9; fi
  if ! git -C /repo apply /verif/seeded/$id/patch.diff 2>/dev/null && ! git -C /repo apply --3way /verif/seeded/$id/patch.diff 2>/dev/null; then
    echo "$id: patch does not apply"; git -C /repo checkout -- . ; git -C /repo reset -q; continue; fi
  git -C /repo reset -q   # --3way stages; keep the index clean
  t0=$(date +%s)
  VT_EVIDENCE_DIR=/verif/.gen/seed_ev ./check $prop --tier quick > .gen/seed_$id.log 2>&1; rc=$?
  t1=$(date +%s)
  git -C /repo checkout -- .
  python3 - "$id" "$prop" "$rc" "$((t1-t0))" <<'PY'
import sys, json, re
id_, prop, rc, secs = sys.argv[1:5]
log = open('/verif/.gen/seed_%s.log' % id_).read().splitlines()
summ = [l for l in log if re.match(r'^C\d+ tier=', l)]
cex = [l.strip()[:300] for l in log if l.strip().startswith('counterexample')]
viol = [l for l in log if l.startswith('VIOLATION')]
json.dump({"seed": id_, "property": prop, "procedure": "git -C /repo apply seeded/%s/patch.diff; ./check %s --tier quick; git -C /repo checkout -- ." % (id_, prop),
           "exit_code": int(rc), "detected": int(rc) == 1 and bool(viol), "wall_s": int(secs), "summary": summ[-1] if summ else None,
           "counterexamples": cex[:6], "violation_lines": len(viol)}, open('/verif/seeded/%s/result.json' % id_, 'w'), indent=1)
print(id_, "rc=%s" % rc, "detected" if int(rc) == 1 and viol else "NOT DETECTED", "%ss" % secs)
PY
done
