#!/bin/bash
# confirm every delivered seed that has no CONFIRM line yet, 4 at a time
cd /verif
BASE=${SEED_BASE:-/tmp/seed2}; RES=${SEED_RES:-.gen/seedres2}; mkdir -p $RES
for d in $(ls -d $BASE/C*/_out/[ab]); do
  id=$(echo "$d" | sed "s|$BASE/\\(C[0-9]*\\)/_out/\\([ab]\\)|\\1|"); v=$(basename "$d"); out=$RES/${id}_$v.txt
  grep -q CONFIRM "$out" 2>/dev/null && continue
  echo "$d $out"
done | xargs -P 4 -L 1 bash -c 'echo "== $(basename $(dirname $(dirname $0))) $(basename $0)" > $1; tools/seedconfirm.sh $0 >> $1 2>&1'
echo confirm-all-done
