#!/bin/bash
# run every registered quick check once, sequentially, against /repo (writes evidence/<ID>.json); log per check under .gen/
cd /verif
for id in ${@:-C13 C14 C15 C17 C03 C07 C09 C11 C16 C18 C20 C02 C04 C12 C01 C10 C05}; do
  t0=$(date +%s)
  ./check $id --tier quick > .gen/final_$id.log 2>&1; rc=$?
  echo "$id rc=$rc $(( $(date +%s) - t0 ))s $(grep -h "^$id tier" .gen/final_$id.log | cut -c1-140)"
done
echo refresh-done
