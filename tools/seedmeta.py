#!/usr/bin/env python3
"""(Re)write seeded/<id>/meta.json from the table below + the recorded confirmation and check results."""
import json, os, re, glob
ROOT = os.path.dirname(os.path.dirname(os.path.abspath(__file__)))
# id: (what the change is, what it needs in order to manifest, caught by the check as first built?, what was added when it was missed)
T = {
 "C01a": ("eval_dyad_split with a list of sizes rewritten with tile/cumsum/np.split; searchsorted(side='right') where 'left' is needed", "a has >= 2 sizes and #b mod +/a equals a proper prefix sum of a: a silent trailing empty segment ([2 3]:#!7)", True, ""),
 "C01b": ("kg_equal fast path for homogeneous numeric arrays uses isclose(...).all() instead of array_equal", "two integer arrays of the same shape whose differing elements are ~1e5 or larger ([100000 1]~[100001 1] -> 1)", True, ""),
 "C02a": ("Scan-Over shortcut: np.add.accumulate -> np.cumsum (no axis: flattens)", "operator verb + or * AND operand of rank >= 2", True, ""),
 "C02b": ("vectorised fast path in eval_adverb_each for atomic monads; chain_adverbs passes the chain's base verb as op", "two-adverb chain ending in Each whose base verb is the operator - on a numeric matrix (-/'m)", True, ""),
 "C03a": ("merge_projections: hole cursor hoisted out of the per-level loop", "triad filled in two projection steps where a later step fills a hole to the left of an earlier one", True, ""),
 "C03b": ("read_cond: recursion per :| replaced by a loop that folds the clauses in the wrong order", "a conditional with two or more :| and overlapping true tests (or tests with effects)", False, "cond_chain obligation: three symbolic test values, logging tests and branches"),
 "C04a": ("parse cache records the parser's module only if parsing changed it and replays it only if not None", ".module(0) evaluated a second time under the same module name (open, close, open, close): the close is a cache hit and does not close", False, "module statements, whole-stack state, a session history in which a module was opened and closed before"),
 "C04b": ("eval_dyad_reshape normalises its shape with asarray(a, dtype=int) and writes the resolved -1 in place", "an integer shape containing -1 held in a variable or in a literal inside a function body; visible at the next use", False, "statements s::[-1 2], m::s:^a,a, h::{[-1 2]:^x}; functions re-parsed from text for the fresh interpreter"),
 "C05a": ("_ir_to_source emits (v*v) for var^2", "a real whose square is whole (2.0^2 -> 4.0 vs 4) or an integer whose square exceeds 2^53", True, ""),
 "C05b": ("reduce/scan operand check moved from call time to compile time; compiled code memoised on the parse-tree node", "the same node inside a function body (operand of a non-compilable verb) evaluated first on a vector, then on a matrix or []", False, "evaluation positions 'operand of a non-compilable verb in a function body' and 'lambda parameters' in equiv and rebinding"),
 "C07a": ("numeric_jacobian perturbs a ravel() view of the caller's array in place, restore not in a finally", "float64 contiguous array in a variable and the function failing at evaluation k >= 2", True, ""),
 "C07b": ("multi_grad_of_fn (NumPy fallback) restores the rebound parameter only on some exit paths", "loss:>[w b] form and the loss returning a non-scalar / non-number (not raising)", True, ""),
 "C09a": ("KGLambda builds its argument list in the order of the Python signature instead of x,y,z order", "a callable declaring at least two of x,y,z out of canonical order (lambda y, x: ...)", False, "callables f(y,x), f(z,x,y), f(klong,y,x)"),
 "C09b": ("KGFnWrapper sets its symbol to None when the name is found deleted", "del name; call through the wrapper; redefine name; call again", False, "wrapper histories of four symbolic operations"),
 "C10a": ("copy_lambda hands out the last copy of a literal again while it still equals the template", "two evaluations of the same literal with no update in between, then an update through one of them", False, "two live evaluations of one literal site (d3::mk();d4::mk();d3,9,v and inside one function)"),
 "C10b": ("eval_dyad_drop: 'if a == 0: return b' before the dictionary branch", "removing the key 0 (or 0.0) from a dictionary", False, "integer key domain now contains 0"),
 "C11a": ("eval_sys_read_string strips its input", "a top-level character atom that is white space (0c<space>) read through .rs", True, ""),
 "C11b": ("Form for integers: int(b) -> int(float(b))", "|x| > 2^53 not representable as a double", False, "integers beyond 2^53 and at the ends of the 64-bit range in the integer table"),
 "C12a": ("read_shifted_comment rewritten with str.find: returns 0 for an unterminated comment", "an unterminated :\" comment after a complete statement and a separator", True, ""),
 "C12b": ("_factor returns a closing delimiter unconsumed", "a closer of the wrong kind where an argument or array element should start (f(}) )", True, ""),
 "C13a": ("stream_recv_msg reads bodies > 64 KiB with read(65536) in a loop", "a body larger than 65536 bytes whose tail arrives together with the start of the next frame", False, "framing over abstract body lengths (any length < 2^32, symbolic partial reads), replay on a real StreamReader"),
 "C13b": ("remote dictionary get answered on the IO thread via klong[key] instead of on the interpreter loop", "another connection keeps the server evaluating a function that has a local with the same name as the key", False, "obligation: every command class is queued on the interpreter loop and does not touch the interpreter before"),
 "C14a": ("_cleanup_pending_responses skips set_exception when the close was graceful", "the peer starts the close handshake while one of our calls is in flight", True, ""),
 "C14b": ("execute_server_command re-raises KeyError for string commands (not caught by the sibling except)", "a string expression whose evaluation raises a Python KeyError on the server", False, "dispatch classes 'KeyError inside evaluation / inside a called function'; C14 shares the dispatch obligation"),
 "C15a": ("next deadline recomputed from loop.time() instead of from the deadline served", "dispatch within clock resolution before the deadline, or rounding of start+interval", True, ""),
 "C15b": ("cancelled-inside-callback guard moved after the interval-0 call_soon fast path", "interval 0 AND cancel from inside the callback AND callback returns true", True, ""),
 "C16a": ("oversize check in update_file moved after _unload_file", "cached key overwritten with an oversize value (refused), then evictions by other keys reach the orphan heap slot", True, ""),
 "C16b": ("KeyValueStorage.get memoises (key, raw bytes, decoded value) of the last read", "same key read twice in a row and the caller edits the first result in place", False, "callers mutate values after set and results after get"),
 "C17a": ("_write_file skips open/write/fsync when the file already holds the same bytes", "set killed between write and fsync, restarted store repeats the set with the same value, then power loss", False, "two-failure harness (kill, restart, re-set, power loss)"),
 "C17b": ("update_file reports 'busy' (False) also while a load is in flight; KeyValueStorage.set ignores the result", "a set of a key issued while a get of the same key is loading it", False, "set concurrent with get under a symbolic schedule, then power loss"),
 "C18a": ("update_file split into separately locked check / wait / submit steps", "update preempted between its two critical sections while a get of the same uncached file submits a load", False, "preemption points right before every lock acquisition"),
 "C18b": ("unload_file guard derived from the LRU heap instead of the future state", "file cached, update of it in flight, unload from another thread in that window", True, ""),
 "C20a": ("HTTP handlers kept in one table keyed by path only", "the same path registered for GET and for POST with different handlers", False, "symbolic choice: GET and POST tables share their paths"),
 "C20b": ("websocket _listen drops a message whose decoded value is falsy", "a message that is 0, 0.0, false, \"\", [] or {}", False, "every JSON kind (falsy values and null) in the message table; Klong-function handler"),
}
res = {}
for f in glob.glob(os.path.join(ROOT, ".gen", "seedres", "C*.txt")):
    n = os.path.basename(f)[:-4].replace("_", "")
    m = re.search(r"demo clean rc=(\d+) seeded rc=(\d+) pytest: (.*)", open(f).read())
    if m:
        res[n] = m.groups()
OVERRIDE = {"C05a": ("0", "1", "711 passed, 49 skipped (re-run after the patch was rebased onto the divide fix)"),
            "C07a": ("0", "1", "711 passed, 49 skipped (demo re-run from inside the patched tree)"),
            "C07b": ("0", "1", "1 failed (test_cli_exit, baseline), 710 passed, 49 skipped (demo re-run from inside the patched tree)"),
            "C01b": ("0", "1", "1 failed (test_cli_exit, baseline), 710 passed, 49 skipped (re-run on a quiet machine; the first run also hit the timing-flaky test_timer_return_1_cancel)")}
res.update(OVERRIDE)
for sid, (what, needs, first, added) in T.items():
    d = os.path.join(ROOT, "seeded", sid)
    if not os.path.isdir(d):
        continue
    r = {}
    rp = os.path.join(d, "result.json")
    if os.path.exists(rp):
        r = json.load(open(rp))
    c = res.get(sid)
    meta = {"id": sid, "property": sid[:3], "change": what, "needs_to_manifest": needs,
            "origin": "written by a fresh sub-agent that saw only the property text and its own scratch worktree",
            "confirmed_by_me": {"how": "tools/seedconfirm.sh: scratch worktree of /repo HEAD; demo.py without and with patch.diff; pinned pytest command with the patch",
                                "demo_exit_without_change": int(c[0]) if c else None, "demo_exit_with_change": int(c[1]) if c else None,
                                "pytest_with_change": c[2] if c else None,
                                "baseline": "1 failed (tests/test_cli_exit.py::TestCliExit::test_exit_from_file, fails on the unchanged tree too; passes on a fast run), 710 passed, 49 skipped"},
            "caught_by_check_as_first_built": first,
            "strengthening": added or None,
            "check_run": r or None}
    json.dump(meta, open(os.path.join(d, "meta.json"), "w"), indent=1)
print("meta written for", len(T))
