#!/bin/bash
# tools/seedconfirm.sh <dir with patch.diff and demo.py>
# Confirms a seeded change in a scratch worktree of /repo HEAD: demo passes without it, fails with it, pinned test suite still passes.
d=$(readlink -f "$1")
wt=$(mktemp -d /tmp/seedcf_XXXXXX); rmdir "$wt"
git -C /repo worktree add --detach "$wt" HEAD >/dev/null 2>&1 || exit 9
cd "$wt"
v=$(basename "$d"); mkdir -p "$wt/_out/$v"; cp "$d/demo.py" "$wt/_out/$v/demo.py"   # demos locate the tree relative to themselves or to cwd
PYTHONPATH="$wt" timeout 300 /venv/bin/python -W ignore "$wt/_out/$v/demo.py" >/dev/null 2>&1; clean=$?
if ! git apply "$d/patch.diff" 2>/dev/null && ! git apply --3way "$d/patch.diff" 2>/dev/null; then echo "CONFIRM $d: patch does not apply"; cd /; git -C /repo worktree remove --force "$wt"; exit 9; fi
PYTHONPATH="$wt" timeout 300 /venv/bin/python -W ignore "$wt/_out/$v/demo.py" >/dev/null 2>&1; seeded=$?
if [ "$SKIP_PYTEST" = 1 ]; then tail="(pytest skipped)"; else
tail=$(/venv/bin/python -m pytest -q -p no:cacheprovider --timeout=900 --continue-on-collection-errors 2>&1 | tail -1); fi
cd /
git -C /repo worktree remove --force "$wt"
echo "CONFIRM $d: demo clean rc=$clean seeded rc=$seeded pytest: $tail"
