#!/bin/bash
# run confirm + quick check for every delivered seed that has no result yet (sequential)
cd /verif
BASE=${SEED_BASE:-/tmp/seed}; RES=${SEED_RES:-.gen/seedres}; mkdir -p $RES; LIST=$(ls -d $BASE/C*/_out/[ab]); [ "$1" = rev ] && LIST=$(echo "$LIST" | tac)
for d in $LIST; do
  [ -f "$d/patch.diff" ] && [ -f "$d/demo.py" ] || continue
  id=$(echo "$d" | sed "s|$BASE/\\(C[0-9]*\\)/_out/\\([ab]\\)|\\1|"); v=$(basename "$d")
  out=$RES/${id}_$v.txt
  [ -f "$out" ] && continue
  echo "== $id $v" > "$out"
  tools/seedconfirm.sh "$d" >> "$out" 2>&1
  tools/seedrun.sh "$d/patch.diff" "$id" quick >> "$out" 2>&1
done
